#!/usr/bin/env python3
# tools/conj.py <query.smt2> : split the final (assert (not (and ...))) goal into top-level conjuncts and test each (E-matching only)
import sys,subprocess,re
f=sys.argv[1]
lines=open(f).read().split('\n')
# find last "(assert (not" line
idx=max(i for i,l in enumerate(lines) if l.startswith('(assert (not '))
goal=lines[idx][len('(assert (not '):-2]
def split_and(t):
    t=t.strip()
    if not t.startswith('(and '): return [t]
    body=t[5:-1]; out=[]; depth=0; cur=''
    for ch in body:
        if ch=='(' : depth+=1
        if ch==')' : depth-=1
        if ch==' ' and depth==0:
            if cur: out.append(cur); cur=''
        else: cur+=ch
    if cur: out.append(cur)
    res=[]
    for o in out: res+=split_and(o)
    return res
def split_imp(t):
    # (=> A B): returns (A, B) when t is a top-level implication
    t=t.strip()
    if not t.startswith('(=> '): return None
    body=t[4:-1]; depth=0
    for i,ch in enumerate(body):
        if ch=='(': depth+=1
        if ch==')': depth-=1
        if ch==' ' and depth==0:
            return body[:i], body[i+1:]
    return None
guard=None
imp=split_imp(goal)
if imp and imp[1].strip().startswith('(and '):
    guard,goal=imp
cs=split_and(goal)
pre='\n'.join(lines[:idx])
for c in cs:
    if guard: c='(=> '+guard+' '+c+')'
    q=pre+'\n(assert (not '+c+'))\n(check-sat)\n'
    open('/tmp/conj_q.smt2','w').write(q)
    r=subprocess.run(['z3-new','-T:10','smt.mbqi=false','smt.auto_config=false','/tmp/conj_q.smt2'],capture_output=True,text=True).stdout.split('\n')
    v=[l for l in r if l and not l.startswith('WARNING')][:1]
    print((v or ['?'])[0], '|', c[:160])
