#!/bin/bash
cd /verif
# ledger.json is shared: rebaseline sequentially
for p in C02 C03 C04 C05 C06 C07 C08 C09 C10 C11 C12 C13 C14 C15 C16 C17 C18 C20; do ./bin/govc check -prop $p -no-evidence -rebaseline 2>&1 | grep "^property\|^FAILED" | grep -v "known finding" | cut -c1-200; done
