#!/usr/bin/env python3
# validate MANIFEST.json and evidence/*.json against the given schemas (python3-vt has jsonschema)
import json, sys, glob
import jsonschema
ok = True
m = json.load(open('/verif/MANIFEST.json'))
try:
    jsonschema.validate(m, json.load(open('/root/.vp/MANIFEST.schema.json')))
except Exception as e:
    ok = False; print('MANIFEST:', str(e)[:400])
es = json.load(open('/root/.vp/EVIDENCE.schema.json'))
for f in sorted(glob.glob('/verif/evidence/*.json')):
    d = json.load(open(f))
    try:
        jsonschema.validate(d, es)
    except Exception as e:
        ok = False; print(f, str(e)[:400])
    c = d['coverage']
    if d['level'] == 'proof' and c.get('obligations') != c.get('discharged'):
        ok = False; print(f, 'obligations != discharged', c.get('obligations'), c.get('discharged'))
print('valid' if ok else 'INVALID')
sys.exit(0 if ok else 1)
