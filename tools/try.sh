#!/bin/bash
# tools/try.sh <query.smt2> "<formula>"  : is <formula> entailed by the premises of the query (E-matching only)?
f="$1"; shift
for g in "$@"; do
  grep -v '^(get-model)' "$f" | grep -v '^(check-sat)' | sed '$d' > /tmp/try_q.smt2
  echo "(assert (not $g))" >> /tmp/try_q.smt2; echo "(check-sat)" >> /tmp/try_q.smt2
  echo -n "${g:0:150} => "; z3-new -T:10 smt.mbqi=false smt.auto_config=false /tmp/try_q.smt2 | head -1
done
