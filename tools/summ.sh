#!/bin/bash
# summarises govc output per unit: failures / undecided / translate errors
grep -E "^FAILED-OBLIGATION|^property=" | sed -E 's/^FAILED-OBLIGATION ([^ ]+) \((.*)\)$/\1|\2/' | awk -F'|' '
/^property=/ {print; next}
{ n=split($1,a,"."); unit=a[1]"."a[2]; if (a[2]=="lemma") unit=unit"."a[3];
  kind="fail"; if ($2 ~ /could not be decided/) kind="undec"; if ($1 ~ /translate$/) {kind="xlate"; msg[unit]=$2}
  c[unit" "kind]++; units[unit]=1 }
END { for (u in units) { printf "%-48s fail=%d undec=%d", u, c[u" fail"], c[u" undec"]; if (msg[u]!="") printf "  XLATE: %s", substr(msg[u],1,200); printf "\n" } }' | sort
