#!/usr/bin/env python3
# tools/unsat_prefix.py <query.smt2>: for a query whose premises alone are contradictory, find the
# shortest prefix of (assert ...) lines that is already unsat (E-matching only) and print the last one.
import sys, subprocess, tempfile, os
lines = open(sys.argv[1]).read().split('\n')
idx = [i for i, l in enumerate(lines) if l.startswith('(assert')]
def unsat(n):
    keep = set(idx[:n])
    body = [l for i, l in enumerate(lines) if (i not in set(idx) or i in keep) and not l.startswith('(check-sat') and not l.startswith('(get-model')]
    f = tempfile.NamedTemporaryFile('w', suffix='.smt2', delete=False)
    f.write('\n'.join(body) + '\n(check-sat)\n'); f.close()
    out = subprocess.run(['z3-new', '-T:10', 'smt.mbqi=false', 'smt.auto_config=false', f.name], capture_output=True, text=True).stdout
    os.unlink(f.name)
    return out.strip().startswith('unsat')
if not unsat(len(idx)):
    print('premises not refuted'); sys.exit(0)
lo, hi = 0, len(idx)
while lo < hi:
    mid = (lo + hi) // 2
    if unsat(mid): hi = mid
    else: lo = mid + 1
print('unsat from assert #%d of %d:' % (lo, len(idx)))
print(lines[idx[lo-1]][:1500])
