#!/bin/bash
# tools/seed_eval.sh <PROP> <worktree> <demo-src-relative-to-seed> <demo-dest-relative-to-root> "<demo go test args>" [name]
# 1. confirms the seeded change in the scratch worktree: builds, baseline suite passes, demo fails with it and passes without it
# 2. applies it to a scratch copy of /repo's working tree, runs the check for <PROP> on it, removes the copy
# 3. files everything under /verif/seeded/<name>/
set -u
export GOFLAGS=-mod=mod GOPROXY=off GOSUMDB=off GOTOOLCHAIN=local
prop="$1"; wt="$2"; demosrc="$3"; demodst="$4"; democmd="$5"; name="${6:-$prop}"
out=/verif/seeded/$name; mkdir -p "$out"
cd "$wt" || exit 2
git checkout -q -- . 2>/dev/null; find . -name 'zz_*_verif.go' -not -path './seed/*' -delete
log="$out/confirm.log"; : > "$log"
git apply seed/patch.diff || { echo "patch does not apply" | tee -a "$log"; exit 2; }
go build ./... >>"$log" 2>&1 && echo "build with change: ok" | tee -a "$log" || { echo "build with change: FAILED" | tee -a "$log"; }
go test -vet=off -count=1 ./... >>"$log" 2>&1 && echo "existing tests with change: pass" | tee -a "$log" || echo "existing tests with change: FAIL" | tee -a "$log"
cp "seed/$demosrc" "$demodst"
if go test -vet=off -count=1 $democmd >>"$log" 2>&1; then echo "demo with change: PASSES (unexpected)" | tee -a "$log"; else echo "demo with change: fails (expected)" | tee -a "$log"; fi
git apply -R seed/patch.diff
if go test -vet=off -count=1 $democmd >>"$log" 2>&1; then echo "demo without change: passes (expected)" | tee -a "$log"; else echo "demo without change: FAILS (unexpected)" | tee -a "$log"; fi
rm -f "$demodst"
cp seed/patch.diff "$out/patch.diff"; cp "seed/$demosrc" "$out/"; cp seed/DEMO.md "$out/" 2>/dev/null; cp seed/meta.json "$out/agent_meta.json" 2>/dev/null
# run the check against a scratch copy of /repo's working tree with the change applied (same engine, -repo <copy>)
scratch=$(mktemp -d /tmp/govc-seed-XXXXXX)
cp -r /repo/. "$scratch/"
(cd "$scratch" && git apply "$out/patch.diff") || { echo "patch does not apply to /repo"; rm -rf "$scratch"; exit 2; }
(cd /verif && ./bin/govc check -prop "$prop" -repo "$scratch" -no-evidence -replay-dir "$out/replay" > "$out/check.log" 2>&1); rc=$?
rm -rf "$scratch"
echo "check exit=$rc" | tee -a "$log"
grep -E "^FAILED-OBLIGATION|^VIOLATION|^property=" "$out/check.log" | cut -c1-220 | head -8
