#!/bin/bash
# runs every property check (no evidence) in two batches; prints the property lines and any new failures
cd /verif
run() { for p in "$@"; do ( ./bin/govc check -prop $p -no-evidence 2>&1 | grep "^property\|^FAILED" | grep -v "known finding" > /tmp/allchecks.$p.log ) & done; wait; }
run C02 C03 C04 C05 C06 C07 C08 C09 C10
run C11 C12 C13 C14 C15 C16 C17 C18 C20
for p in C02 C03 C04 C05 C06 C07 C08 C09 C10 C11 C12 C13 C14 C15 C16 C17 C18 C20; do grep "^property" /tmp/allchecks.$p.log | cut -c1-140; done
