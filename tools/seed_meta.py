#!/usr/bin/env python3
# writes /verif/seeded/<name>/meta.json from agent_meta.json, confirm.log and check.log
import json, sys, os, re
name=sys.argv[1]; d='/verif/seeded/'+name
am={}
try: am=json.load(open(d+'/agent_meta.json'))
except Exception: pass
confirm=open(d+'/confirm.log').read() if os.path.exists(d+'/confirm.log') else ''
check=open(d+'/check.log').read() if os.path.exists(d+'/check.log') else ''
lines=[l for l in confirm.splitlines() if re.match(r'^(build|existing|demo|check exit)',l)]
obl=[l.split()[1] for l in check.splitlines() if l.startswith('FAILED-OBLIGATION')]
caught=any(l.startswith('VIOLATION') for l in check.splitlines())
meta={"property":am.get("property",name.split('-')[0]),"source":"independent sub-agent given only the property text and a scratch worktree (contract files removed)",
 "summary":am.get("summary",""),"needs_to_manifest":am.get("needs_to_manifest",""),"files":am.get("files",[]),
 "confirmed_by_me":lines,"what_i_ran":["tools/seed_eval.sh (scratch worktree: git apply, go build ./..., go test ./..., demo with and without the change; then the same patch on a scratch copy of /repo checked with govc check -repo <copy>)"],
 "caught_by_check":caught,"failing_obligations":obl[:12]}
json.dump(meta,open(d+'/meta.json','w'),indent=1)
print(name,"caught" if caught else "MISSED",obl[:3])
