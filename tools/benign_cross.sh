#!/bin/bash
# tools/benign_cross.sh : every benign patch (selftest/benign, selftest/benign_agents) against the checks of every OTHER property; scratch copies under /tmp, removed after use
export GOFLAGS=-mod=mod GOPROXY=off GOSUMDB=off GOTOOLCHAIN=local
cd /verif
for pt in selftest/benign/*.patch selftest/benign_agents/*.patch; do
  n=$(basename $pt .patch); own=${n%%-*}
  s=$(mktemp -d /tmp/govc-bx-XXXXXX); cp -r /repo/. $s/
  (cd $s && git apply /verif/$pt 2>/dev/null) || { echo "$n: does not apply"; rm -rf $s; continue; }
  for batch in "C02 C03 C04 C05 C06 C07 C08 C09 C10" "C11 C12 C13 C14 C15 C16 C17 C18 C20"; do
    for q in $batch; do
      [ "$q" = "$own" ] && continue
      ( out=$(./bin/govc check -prop $q -repo $s -no-evidence -replay-dir $s/.replay 2>&1); rc=$?; [ $rc -ne 0 ] && echo "$n [$q]: ALARM: $(echo "$out" | grep '^FAILED-OBLIGATION' | grep -v 'known finding' | head -2 | cut -c19-180 | tr '\n' ';')" ) &
    done; wait
  done
  echo "$n: done"
  rm -rf $s
done
