#!/bin/bash
cd /verif
run() { for p in "$@"; do ( VERIF_SEED=1 ./check $p quick > /tmp/evid.$p.log 2>&1; echo "$p exit=$?" >> /tmp/evid.summary ) & done; wait; }
rm -f /tmp/evid.summary
run C02 C03 C04 C05 C06 C07 C08 C09 C10
run C11 C12 C13 C14 C15 C16 C17 C18 C20
sort /tmp/evid.summary | tr '\n' ' '
