#!/bin/bash
cd /verif
lane() { n=$1; shift; for p in "$@"; do bash selftest/run.sh $p; done > /tmp/stl$n.log 2>&1; }
lane 1 C16 C02 C10 &
lane 2 C12 C03 C20 &
lane 3 C18 C09 &
lane 4 C07 C11 C06 &
lane 5 C14 C13 &
lane 6 C08 C17 C15 &
lane 7 C04 C05 &
wait
grep -h "FAIL\|BROKEN" /tmp/stl*.log; grep -h "^selftest:" /tmp/stl*.log | awk '{s+=$2} END {print "total", s}'
