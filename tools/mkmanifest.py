#!/usr/bin/env python3
# Regenerates /verif/MANIFEST.json from tools/claims.json (one entry per claimed property).
import json, subprocess
import subprocess
def hook_commits():
    # every commit in /repo whose message starts with "verif" (guarded contract / harness files), oldest first
    try:
        log=subprocess.run(['git','-C','/repo','log','--format=%h %s'],capture_output=True,text=True).stdout.splitlines()
        h=[l.split()[0] for l in log if l.split(' ',1)[1].startswith('verif')]
        h.reverse()
        return h or claims["hook_commits"]
    except Exception:
        return claims["hook_commits"]
props=[json.loads(l) for l in open('/verif/properties.jsonl')]
claims=json.load(open('/verif/tools/claims.json'))
m={
 "version":1,
 "setup_cmd":"cd /verif/engine && GOFLAGS=-mod=mod GOPROXY=off GOSUMDB=off GOTOOLCHAIN=local go build -o ../bin/govc ./cmd/govc",
 "hooks":{"guard":"verif","enable":"go build -tags verif ./... (the guarded files are comment-only contract files zz_contracts_verif.go read by govc; they add no code)",
   "baseline_off_cmd":"cd /repo && GOFLAGS=-mod=mod GOPROXY=off GOSUMDB=off go test -vet=off -count=1 -timeout 25m ./...",
   "source_commits":hook_commits(),"add_only":True},
 "engines":[{"name":"govc","path":"/verif/engine","serves_properties":sorted(claims["checks"].keys()),
   "kind_free_text":"contract-based deductive verifier for Go written for this task: go/ssa -> verification conditions (Burstall-Bornat heap, slices with aliasing, maps, loop invariants, callee contracts, inferred frames, monitor rule) -> SMT-LIB, discharged by z3 5.1.0 / z3 4.8.12 / cvc5 1.0"}],
 "checks":[],
 "notes":claims["notes"],
 "not_applicable":[]
}
for pid in sorted(claims["checks"]):
    c=claims["checks"][pid]
    m["checks"].append({
     "property_id":pid,"quick_cmd":"./check %s quick"%pid,"thorough_cmd":"./check %s thorough"%pid,"evidence_file":"/verif/evidence/%s.json"%pid,
     "replay_cmd_template":"./check --replay {path}","engine":"govc",
     "level_claimed":{"category":"proof","text":c["text"],"design_ref":c.get("design_ref","DESIGN.md §4 "+pid)},
     "level_note":c["note"],
     "technique":"contract-based deductive verification (own VC generator over go/ssa, SMT discharge)"})
for p in props:
    if p['id'] in claims["checks"]: continue
    m["not_applicable"].append({"property_id":p['id'],"reason":claims["not_applicable"].get(p['id'],"not yet under contract in this revision (work in progress; see DESIGN.md §3)")})
json.dump(m,open('/verif/MANIFEST.json','w'),indent=1)
print("claimed:",sorted(claims["checks"]))
