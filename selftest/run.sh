#!/bin/bash
# Must-fail / must-pass corpus for the verifier itself.
#   selftest/mutants/<PROP>-<name>.patch : property-breaking edits of /repo; the check for PROP must report a VIOLATION
#   selftest/benign/<PROP>-<name>.patch  : harmless edits; the check for PROP must stay silent
#   selftest/benign_agents/<PROP>-pN.patch : harmless edits written by independent sub-agents (NOTES per property)
# Each patch is applied to a scratch copy outside /repo and /verif, removed afterwards.
# usage: selftest/run.sh [PROP]      (all properties when omitted)
set -u
cd "$(dirname "$0")/.."
export GOFLAGS=-mod=mod GOPROXY=off GOSUMDB=off GOTOOLCHAIN=local
want="${1:-}"
fail=0; n=0
run_one() { # patch expect(1|0)
  local p="$1" expect="$2" base prop scratch rc out
  base=$(basename "$p" .patch); prop="${base%%-*}"
  [ -n "$want" ] && [ "$want" != "$prop" ] && return
  scratch=$(mktemp -d /tmp/govc-selftest-XXXXXX)
  cp -r /repo/. "$scratch/"
  if ! (cd "$scratch" && git apply "$OLDPWD/$p" 2>/dev/null || patch -p1 -s < "$OLDPWD/$p" >/dev/null 2>&1); then
    echo "SELFTEST-BROKEN $base: patch does not apply"; fail=1; rm -rf "$scratch"; return
  fi
  if ! (cd "$scratch" && go build ./... >/dev/null 2>&1); then
    echo "SELFTEST-BROKEN $base: patched tree does not build"; fail=1; rm -rf "$scratch"; return
  fi
  out=$(./bin/govc check -prop "$prop" -repo "$scratch" -verif "$(pwd)" -no-evidence -replay-dir "$scratch/.replay" 2>&1); rc=$?
  n=$((n+1))
  if [ "$expect" = 1 ]; then
    if [ $rc -eq 1 ] && echo "$out" | grep -q "^VIOLATION property=$prop "; then
      echo "ok   caught   $base: $(echo "$out" | grep '^FAILED-OBLIGATION' | head -2 | sed 's/^FAILED-OBLIGATION //' | cut -c1-110 | tr '\n' ';')"
    else
      echo "FAIL missed   $base (exit $rc)"; fail=1
    fi
  else
    if [ $rc -eq 0 ]; then echo "ok   silent   $base"; else echo "FAIL false-alarm $base (exit $rc): $(echo "$out" | grep '^FAILED-OBLIGATION' | head -2 | tr '\n' ';')"; fail=1; fi
  fi
  rm -rf "$scratch"
}
for p in selftest/mutants/*.patch; do [ -e "$p" ] && run_one "$p" 1; done
for p in selftest/benign/*.patch selftest/benign_agents/*.patch; do [ -e "$p" ] && run_one "$p" 0; done
echo "selftest: $n patches run, $( [ $fail = 0 ] && echo all as expected || echo SOME NOT AS EXPECTED )"
exit $fail
