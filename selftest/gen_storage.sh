#!/bin/bash
# regenerates the sed-based patches for internal/storage (run from /verif)
M=selftest/mkpatch.sh; rm -f selftest/mutants/C07-* selftest/mutants/C03-*
$M mutants C07-a_newsafe_ignores_trusted internal/storage/unconfirmed.go 's/if !tx.trusted \&\& !memPool.IsTrusted\(ctx, hash\) \{/if false \&\& !tx.trusted \&\& !memPool.IsTrusted(ctx, hash) {/'
$M mutants C07-b_newsafe_not_marked internal/storage/unconfirmed.go '/continue \/\/ not trusted yet/{n;n;s/\t\t\ttx.safe = true//}'
$M mutants C07-c_newsafe_ignores_unsafe internal/storage/unconfirmed.go 's/if !tx.safe \&\& !tx.unsafe \&\& tx.time.Before\(beforeTime\) \{/if !tx.safe \&\& tx.time.Before(beforeTime) {/'
$M mutants C07-d_newsafe_ignores_delay internal/storage/unconfirmed.go 's/if !tx.safe \&\& !tx.unsafe \&\& tx.time.Before\(beforeTime\) \{/if !tx.safe \&\& !tx.unsafe {/'
$M mutants C07-e_add_clears_unsafe internal/storage/transactions.go 's/^\t\t\tif trusted \{$/\t\t\ttx.unsafe = false\n\t\t\tif trusted {/'
$M mutants C07-f_markunsafe_creates internal/storage/unconfirmed.go 's/\treturn false, nil \/\/ not a tx that was added as relevant/\trepo.unconfirmed[txid] = newUnconfirmedTx(false, true, false)\n\treturn true, nil/'
$M mutants C07-g_marktrusted_sets_safe internal/storage/unconfirmed.go 's/^\t\ttx.trusted = true$/\t\ttx.trusted = true\n\t\ttx.safe = true/'
$M mutants C03-a_add_always_added internal/storage/transactions.go 's/\t\t\treturn false, newlySafe, nil/\t\t\treturn true, newlySafe, nil/'
$M mutants C03-b_getunconfirmed_skips internal/storage/transactions.go 's/^\t\tresult = append\(result, hash\)$/\t\tif len(result) < 8 {\n\t\t\tresult = append(result, hash)\n\t\t}/'
$M mutants C03-c_finalize_drops_flags internal/storage/transactions.go '/^func \(repo \*TxRepository\) FinalizeUnconfirmed/,/^}/s/\t\t\tnewUnconfirmed\[hash\] = tx/\t\t\tnewUnconfirmed[hash] = newUnconfirmedTx(tx.safe, false, tx.trusted)/'
