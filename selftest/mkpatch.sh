#!/bin/bash
# selftest/mkpatch.sh <mutants|benign> <PROP-name> <file> <sed-expr>   : create a patch from a sed edit of /repo (scratch copy)
set -eu
kind="$1"; name="$2"; file="$3"; expr="$4"
here="$(cd "$(dirname "$0")" && pwd)"
scratch=$(mktemp -d /tmp/govc-mk-XXXXXX)
cp -r /repo/. "$scratch/"
(cd "$scratch" && sed -i -E "$expr" "$file" && git diff -- "$file" > "$here/$kind/$name.patch")
if [ ! -s "$here/$kind/$name.patch" ]; then echo "no change produced for $name"; rm -f "$here/$kind/$name.patch"; fi
rm -rf "$scratch"
