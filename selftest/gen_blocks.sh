#!/bin/bash
# regenerates the sed-based patches for the block store (run from /verif)
M=selftest/mkpatch.sh; rm -f selftest/mutants/C09-* selftest/mutants/C10-*
$M mutants C09-a_gethash_off_by_one internal/storage/blocks.go '/^func \(repo \*BlockRepository\) getHash/,/^}/s/len\(repo.lastHeaders\)-1-\(repo.height-height\)/len(repo.lastHeaders)-(repo.height-height)/'
$M mutants C09-b_add_rollover_early internal/storage/blocks.go 's/if len\(repo.lastHeaders\) == blocksPerKey \{/if len(repo.lastHeaders) >= blocksPerKey-1 {/'
$M mutants C09-c_revert_newcount internal/storage/blocks.go 's/newCount := height - revertedHeight$/newCount := height - revertedHeight - 1/'
$M mutants C09-d_getheaders_inclusive internal/spynode/node.go 's/for i := startHeight; i < startHeight\+maxCount; i\+\+ \{/for i := startHeight; i <= startHeight+maxCount; i++ {/'
$M mutants C09-e_negative_guard_removed internal/storage/blocks.go '/^func \(repo \*BlockRepository\) getTime/,/^}/s/if height < 0 \|\| height > repo.height \{/if height > repo.height {/'
$M mutants C09-f_save_wrong_key internal/storage/blocks.go '/^func \(repo \*BlockRepository\) save/,/^}/s/err := repo.store.Write\(ctx, repo.buildPath\(repo.height\), buf.Bytes\(\), nil\)/err := repo.store.Write(ctx, repo.buildPath(repo.height+1), buf.Bytes(), nil)/'
$M mutants C09-g_revert_prunes_first internal/storage/blocks.go 's/^\t\tremovedHashes = append\(removedHashes, \*hash\)$/\t\tremovedHashes = append(removedHashes, *hash)\n\t\tdelete(repo.heights, *hash)/'
$M mutants C09-h_header_minus_one_not_tip internal/storage/blocks.go 's/\tif height == -1 \{\n\t\trequestHeight = repo.height//; /^func \(repo \*BlockRepository\) Header/,/^}/s/requestHeight = repo.height$/requestHeight = repo.height - 1/'
$M mutants C09-i_revert_truncate_guard internal/storage/blocks.go 's/if newCount < blocksPerKey \&\& len\(data\) > wire.MaxBlockHeaderPayload\*newCount \{/if newCount < len(repo.lastHeaders) \&\& len(data) > wire.MaxBlockHeaderPayload*newCount {/'
$M mutants C10-a_revert_keeps_top_file internal/storage/blocks.go 's/^\tfor ; revertedHeight >= height; revertedHeight -= blocksPerKey \{$/\tfor ; revertedHeight > height; revertedHeight -= blocksPerKey {/'
$M mutants C10-b_add_resets_before_save internal/storage/blocks.go '/^func \(repo \*BlockRepository\) Add/,/^}/s/\t\t\/\/ Save latest key$/\t\tlast := repo.lastHeaders[len(repo.lastHeaders)-1]\n\t\trepo.lastHeaders = append(make([]wire.BlockHeader, 0, blocksPerKey), last)\n\t\t\/\/ Save latest key/'
