package main

// Abstract storage (C09, C10, C11): the storage.Storage back end as a ghost map from key strings
// to blobs, with fault injection; blobs as token lists; fmt.Sprintf keys.
//
// Assumed (listed in evidence): each Read/Write/Remove is atomic (it either takes effect completely
// or returns an error leaving the store unchanged); Remove of an absent key returns nil or
// ErrNotFound (both back-end behaviours); keys built by Sprintf with a constant format are injective
// in their integer argument; the dependency's 80-byte header codec (via the token model).

import (
	"go/constant"
	"fmt"
	"go/types"
	"strings"

	"golang.org/x/tools/go/ssa"
)

func (v *FnVerifier) storeKeys() (has, blob string) {
	has = v.ghostKey("store.has", "(Array Str Bool)")
	blob = v.ghostKey("store.blob", "(Array Str Int)")
	return
}

var storeGhosts = []KeyInfo{{Key: "GH!store.has", Ghost: "(Array Str Bool)"}, {Key: "GH!store.blob", Ghost: "(Array Str Int)"}}

// blob structure functions
func (v *FnVerifier) blobFuns() (ntok, toks, blen, sub, tail string) {
	v.streamKeys()
	ntok = v.smt.declareFun("uf!blobNTok", []string{"Int"}, "Int")
	toks = v.smt.declareFun("uf!blobToks", []string{"Int"}, "(Array Int Tok)")
	blen = v.smt.declareFun("uf!blobLen", []string{"Int"}, "Int")
	sub = v.smt.declareFun("uf!subBlob", []string{"Int", "Int", "Int"}, "Int")
	tail = v.smt.declareFun("uf!blobTail", []string{"Int"}, "Bool")
	ax := []string{
		fmt.Sprintf("(forall ((b Int)) (! (and (>= (%s b) 0) (>= (%s b) 0)) :pattern ((%s b))))", ntok, blen, ntok),
		// the whole blob is its own view
		fmt.Sprintf("(forall ((b Int) (n Int)) (! (=> (= n (%s b)) (= (%s b 0 n) b)) :pattern ((%s b 0 n))))", blen, sub, sub),
		// there is one empty byte string
		fmt.Sprintf("(forall ((b Int)) (! (=> (= (%s b) 0) (= b (%s 0 0 0))) :pattern ((%s b))))", blen, sub, blen),
		// a view that lies within the blob has the length asked for
		fmt.Sprintf("(forall ((b Int) (o Int) (n Int)) (! (=> (and (<= 0 o) (<= 0 n) (<= (+ o n) (%s b))) (= (%s (%s b o n)) n)) :pattern ((%s b o n))))", blen, blen, sub, sub),
		// an empty view holds nothing
		fmt.Sprintf("(forall ((b Int) (o Int)) (! (and (= (%s (%s b o 0)) 0) (= (%s (%s b o 0)) 0) (not (%s (%s b o 0)))) :pattern ((%s b o 0))))", ntok, sub, blen, sub, tail, sub, sub),
	}
	for _, a := range ax {
		if !v.smt.ufs[a] {
			v.smt.ufs[a] = true
			v.smt.axiom(a)
		}
	}
	return
}

// sliceBlob: the blob seen through a byte-slice value (view of its array's blob).
func (v *FnVerifier) sliceBlob(st *State, s string) string {
	_, _, _, sub, _ := v.blobFuns()
	full := sel(v.heap(st, v.blobKey()), "(s.arr "+s+")")
	return app(sub, full, "(s.off "+s+")", "(s.len "+s+")")
}

const hdrSize = 80

// headerBlobAxioms: structure of blobs made of block-header tokens, and of their prefixes.
func (v *FnVerifier) headerBlobAxioms(hdrKind string) {
	ntok, toks, blen, sub, tail := v.blobFuns()
	isHdr := v.smt.declareFun("uf!hdrBlob", []string{"Int"}, "Bool")
	ax := []string{
		// a header blob has 80 bytes per token, no garbage tail, and every token is a header
		fmt.Sprintf("(forall ((b Int)) (! (=> (%s b) (and (= (%s b) (* %d (%s b))) (not (%s b)))) :pattern ((%s b))))", isHdr, blen, hdrSize, ntok, tail, isHdr),
		fmt.Sprintf("(forall ((b Int) (i Int)) (! (=> (and (%s b) (<= 0 i) (< i (%s b))) (= (tk.kind (select (%s b) i)) %s)) :pattern ((select (%s b) i))))", isHdr, ntok, toks, hdrKind, toks),
		// prefixes at header boundaries
		fmt.Sprintf("(forall ((b Int) (k Int)) (! (=> (and (%s b) (<= 0 k) (<= k (%s b))) (and (%s (%s b 0 (* %d k))) (= (%s (%s b 0 (* %d k))) k))) :pattern ((%s b 0 (* %d k)))))", isHdr, ntok, isHdr, sub, hdrSize, ntok, sub, hdrSize, sub, hdrSize),
		fmt.Sprintf("(forall ((b Int) (k Int) (i Int)) (! (=> (and (%s b) (<= 0 k) (<= k (%s b)) (<= 0 i) (< i k)) (= (select (%s (%s b 0 (* %d k))) i) (select (%s b) i))) :pattern ((select (%s (%s b 0 (* %d k))) i))))", isHdr, ntok, toks, sub, hdrSize, toks, toks, sub, hdrSize),
	}
	for _, a := range ax {
		if !v.smt.ufs[a] {
			v.smt.ufs[a] = true
			v.smt.axiom(a)
		}
	}
}

func init() {
	// ---- keys ----
	extPrefix = append([]*extModel{{name: "fmt.Sprintf*", doc: "Sprintf with a constant format and integer arguments: uninterpreted, injective in the arguments (sprintf_key_injective); other uses opaque", mods: noMods,
		apply: func(fr *Frame, st *State, c *ssa.CallCommon, args []Val, res ssa.Value) Val {
			v := fr.v
			fc, ok := c.Args[0].(*ssa.Const)
			if !ok || len(c.Args) != 2 {
				return pureOpaque(fr, st, c, args, res)
			}
			// variadic args: a slice of a fresh [n]interface{} array filled just before the call
			all := fr.sprintfIntArgs(st, c.Args[1])
			var ints []string
			suffix := ""
			for _, a := range all {
				if strings.HasPrefix(a, "const:") {
					suffix += "!" + sanitize(a[6:])
				} else {
					ints = append(ints, a)
				}
			}
			if all == nil || len(ints) != 1 {
				return pureOpaque(fr, st, c, args, res)
			}
			name := "uf!sprintf!" + sanitize(strings.ReplaceAll(fc.Value.ExactString(), "\"", "")) + suffix
			f := v.smt.declareFun(name, []string{"Int"}, "Str")
			ax := fmt.Sprintf("(forall ((a Int) (b Int)) (! (=> (= (%s a) (%s b)) (= a b)) :pattern ((%s a) (%s b))))", f, f, f, f)
			if !v.smt.ufs[ax] {
				v.smt.ufs[ax] = true
				v.smt.axiom(ax)
				v.smt.note("sprintf_key_injective: storage keys built by Sprintf(const, n) are injective in n")
			}
			fr.defVal(res, app(f, ints[0]))
			return fr.vals[res]
		}}}, extPrefix...)

	// ---- storage.Storage ----
	storeMods := func(ms *ModSet, c *ssa.CallCommon) {
		for _, k := range storeGhosts {
			ms.add(k)
		}
		ms.add(KeyInfo{Key: "GH!blob", Ghost: "(Array Int Int)"})
		k := kiElem(types.Typ[types.Uint8])
		k.FreshOnly = true
		ms.add(k)
	}
	for _, iface := range []string{"github.com/tokenized/pkg/storage.Storage", "github.com/tokenized/pkg/storage.Reader", "github.com/tokenized/pkg/storage.StreamStorage"} {
		regInvoke(iface+".Read", "abstract store: present key -> its blob (fresh slice) or a fault; absent key -> ErrNotFound or a fault; never changes the store", storeMods,
			func(fr *Frame, st *State, c *ssa.CallCommon, args []Val, res ssa.Value) Val {
				v := fr.v
				has, blob := v.storeKeys()
				_, _, blen, _, _ := v.blobFuns()
				key := fr.term(st, c.Args[1])
				present := sel(v.heap(st, has), key)
				b := sel(v.heap(st, blob), key)
				errT := v.smt.fresh("store.rd.err", "Iface")
				v.smt.assert(v.closedFact(errT, types.Universe.Lookup("error").Type(), v.alloc(st), 0))
				v.notRepoSentinel(errT)
				okT := eq(errT, "(mk-iface 0 0)")
				notFound := v.sentinelTerm("github.com/tokenized/pkg/storage.ErrNotFound")
				// success only if present; an absent key never succeeds
				v.smt.assert(implies(okT, present))
				v.smt.assert(implies(eq(errT, notFound), not(present)))
				r := v.newRef(st, "store.data")
				bk := v.blobKey()
				v.setHeap(st, bk, sto(v.heap(st, bk), r, b))
				n := app(blen, b)
				data := v.smt.define("store.data", "Slice", ite(okT, fmt.Sprintf("(mk-slice %s 0 %s %s)", r, n, n), "(mk-slice 0 0 0 0)"))
				v.smt.assert("(<= " + n + " " + v.heap(st, v.ghostKey("inputBudget", "Int")) + ")")
				v.smt.assert("(< " + n + " 9223372036854775808)")
				out := Val{Tuple: []Val{{T: data}, {T: errT}}}
				fr.setResult(res, out)
				return out
			})
	}
	for _, iface := range []string{"github.com/tokenized/pkg/storage.Storage", "github.com/tokenized/pkg/storage.Writer", "github.com/tokenized/pkg/storage.StreamStorage"} {
		regInvoke(iface+".Write", "abstract store: atomically binds the key to the blob seen through the slice, or fails leaving the store unchanged", storeMods,
			func(fr *Frame, st *State, c *ssa.CallCommon, args []Val, res ssa.Value) Val {
				v := fr.v
				has, blob := v.storeKeys()
				key := fr.term(st, c.Args[1])
				data := fr.term(st, c.Args[2])
				errT := v.smt.fresh("store.wr.err", "Iface")
				v.smt.assert(v.closedFact(errT, types.Universe.Lookup("error").Type(), v.alloc(st), 0))
				v.notRepoSentinel(errT)
				okT := eq(errT, "(mk-iface 0 0)")
				H, B := v.heap(st, has), v.heap(st, blob)
				v.setHeap(st, has, ite(okT, sto(H, key, "true"), H))
				v.setHeap(st, blob, ite(okT, sto(B, key, v.sliceBlob(st, data)), B))
				v.storeOpHook(fr, st, c, "Write")
				fr.setResult(res, Val{T: errT})
				return Val{T: errT}
			})
	}
	for _, iface := range []string{"github.com/tokenized/pkg/storage.Storage", "github.com/tokenized/pkg/storage.Remover", "github.com/tokenized/pkg/storage.StreamStorage"} {
		regInvoke(iface+".Remove", "abstract store: a present key is removed or the call fails unchanged; an absent key yields nil or ErrNotFound (both back-end behaviours) or a fault", storeMods,
			func(fr *Frame, st *State, c *ssa.CallCommon, args []Val, res ssa.Value) Val {
				v := fr.v
				has, _ := v.storeKeys()
				key := fr.term(st, c.Args[1])
				errT := v.smt.fresh("store.rm.err", "Iface")
				v.smt.assert(v.closedFact(errT, types.Universe.Lookup("error").Type(), v.alloc(st), 0))
				v.notRepoSentinel(errT)
				okT := eq(errT, "(mk-iface 0 0)")
				H := v.heap(st, has)
				notFound := v.sentinelTerm("github.com/tokenized/pkg/storage.ErrNotFound")
				v.smt.assert(implies(eq(errT, notFound), not(sel(H, key))))
				v.setHeap(st, has, ite(okT, sto(H, key, "false"), H))
				v.storeOpHook(fr, st, c, "Remove")
				fr.setResult(res, Val{T: errT})
				return Val{T: errT}
			})
	}

	// ---- bytes.Buffer as a view of a blob ----
	fromBlob := func(fr *Frame, st *State, c *ssa.CallCommon, args []Val, res ssa.Value) Val {
		v := fr.v
		ntok, toks, _, _, _ := v.blobFuns()
		stk, sn, sp := v.streamKeys()
		b := fr.term(st, c.Args[0])
		blob := v.smt.define("buf.blob", "Int", v.sliceBlob(st, b))
		r := v.newRef(st, "stream")
		v.setHeap(st, stk, sto(v.heap(st, stk), r, app(toks, blob)))
		v.setHeap(st, sn, sto(v.heap(st, sn), r, app(ntok, blob)))
		v.setHeap(st, sp, sto(v.heap(st, sp), r, "0"))
		sb := v.ghostKey("stream.blob", "(Array Int Int)")
		v.setHeap(st, sb, sto(v.heap(st, sb), r, blob))
		v.smt.assert("(<= (s.len " + b + ") " + v.heap(st, v.ghostKey("inputBudget", "Int")) + ")")
		fr.setResult(res, Val{T: r})
		return Val{T: r}
	}
	bufMods := func(ms *ModSet, c *ssa.CallCommon) {
		streamMods(ms, c)
		ms.add(KeyInfo{Key: "GH!stream.blob", Ghost: "(Array Int Int)"})
	}
	reg("bytes.NewBuffer", "a stream over the given bytes: its tokens are a function of the blob (arbitrary for arbitrary bytes)", bufMods, fromBlob)
	reg("bytes.NewReader", "a stream over the given bytes: its tokens are a function of the blob (arbitrary for arbitrary bytes)", bufMods, fromBlob)
	reg("(*bytes.Buffer).Len", "remaining bytes: positive while a token remains; when none remains, positive only if the blob has a garbage tail", nil,
		func(fr *Frame, st *State, c *ssa.CallCommon, args []Val, res ssa.Value) Val {
			v := fr.v
			_, _, _, _, tail := v.blobFuns()
			_, sn, sp := v.streamKeys()
			id := fr.term(st, c.Args[0])
			out := fr.freshResult(st, c, res)
			rem := "(- " + sel(v.heap(st, sn), id) + " " + sel(v.heap(st, sp), id) + ")"
			sb := v.ghostKey("stream.blob", "(Array Int Int)")
			v.smt.assert(and("(>= "+out.T+" 0)", implies("(> "+rem+" 0)", "(> "+out.T+" 0)"),
				eq(and("(<= "+rem+" 0)", "(> "+out.T+" 0)"), and("(<= "+rem+" 0)", app(tail, sel(v.heap(st, sb), id))))))
			return out
		})
	reg("(*bytes.Buffer).Bytes", "the unread contents as a fresh slice whose blob has exactly the buffer's tokens", func(ms *ModSet, c *ssa.CallCommon) {
		ms.add(KeyInfo{Key: "GH!blob", Ghost: "(Array Int Int)"})
	}, func(fr *Frame, st *State, c *ssa.CallCommon, args []Val, res ssa.Value) Val {
		v := fr.v
		ntok, toks, blen, _, tail := v.blobFuns()
		stk, sn, sp := v.streamKeys()
		id := fr.term(st, c.Args[0])
		b := v.smt.fresh("bytes.blob", "Int")
		n := sel(v.heap(st, sn), id)
		v.smt.assert(implies(eq(sel(v.heap(st, sp), id), "0"), and(eq(app(ntok, b), n), eq(app(toks, b), sel(v.heap(st, stk), id)), not(app(tail, b)))))
		r := v.newRef(st, "bytes")
		bk := v.blobKey()
		v.setHeap(st, bk, sto(v.heap(st, bk), r, b))
		L := app(blen, b)
		v.smt.assert("(< " + L + " 9223372036854775808)")
		fr.defVal(res, fmt.Sprintf("(mk-slice %s 0 %s %s)", r, L, L))
		// a buffer holding only header tokens yields a header blob
		v.bytesHook(st, id, b)
		return fr.vals[res]
	})
}

// notRepoSentinel: a storage back end never returns (or wraps) one of the repository's own sentinel errors.
func (v *FnVerifier) notRepoSentinel(errT string) {
	cause := v.smt.declareFun("uf!errCause", []string{"Iface"}, "Iface")
	for name, n := range v.eng.sentinels {
		if strings.HasPrefix(name, "github.com/tokenized/spynode") {
			s := fmt.Sprintf("(mk-iface 9001 (- %d))", n)
			v.smt.assert(and(not(eq(errT, s)), not(eq(app(cause, errT), s))))
		}
	}
	v.smt.note("storage back ends never return the repository's own sentinel errors")
}

// sentinelTerm: the constant for a package-level sentinel error.
func (v *FnVerifier) sentinelTerm(name string) string {
	if n, ok := v.eng.sentinels[name]; ok {
		return fmt.Sprintf("(mk-iface 9001 (- %d))", n)
	}
	v.unsupported("sentinel %s not found", name)
	return ""
}

// sprintfIntArgs: the integer arguments of a variadic call whose argument slice was built in place.
func (fr *Frame) sprintfIntArgs(st *State, x ssa.Value) []string {
	sl, ok := x.(*ssa.Slice)
	if !ok {
		return nil
	}
	al, ok := sl.X.(*ssa.Alloc)
	if !ok {
		return nil
	}
	arr, ok := deref(al.Type()).Underlying().(*types.Array)
	if !ok {
		return nil
	}
	out := make([]string, arr.Len())
	// find stores *(&al[i]) = make interface{} <- int (v)
	for _, ref := range *al.Referrers() {
		ia, ok := ref.(*ssa.IndexAddr)
		if !ok {
			continue
		}
		idx, ok := ia.Index.(*ssa.Const)
		if !ok {
			return nil
		}
		for _, r2 := range *ia.Referrers() {
			if sto, ok := r2.(*ssa.Store); ok {
				mi, ok := sto.Val.(*ssa.MakeInterface)
				if !ok {
					return nil
				}
				xt := mi.X.Type()
				if cs, ok := mi.X.(*ssa.Const); ok && cs.Value != nil && cs.Value.Kind() == constant.String {
					out[idx.Int64()] = "const:" + constant.StringVal(cs.Value) // part of the key's fixed text
					continue
				}
				if b, ok := xt.Underlying().(*types.Basic); ok && b.Info()&types.IsInteger != 0 {
					out[idx.Int64()] = fr.term(st, mi.X)
					continue
				}
				// a hash (or pointer to one) printed with %s: the key depends on the hash value
				ht := deref(xt)
				if isOpaqueNamed(ht) {
					if _, isArr := ht.Underlying().(*types.Array); isArr {
						var hv string
						if _, isPtr := xt.Underlying().(*types.Pointer); isPtr {
							hv = fr.v.loadPtr(st, fr.val(mi.X), ht)
						} else {
							hv = fr.term(st, mi.X)
						}
						out[idx.Int64()] = fr.v.encVal(hv, ht)
						continue
					}
				}
				return nil
			}
		}
	}
	for _, o := range out {
		if o == "" {
			return nil
		}
	}
	return out
}

// bytesHook: if every token of the buffer is a block header, the blob of Bytes() is a header blob.
func (v *FnVerifier) bytesHook(st *State, id, blob string) {
	hk := fmt.Sprint(tkObject + v.typeTag(v.eng.lookupType(pkgWire, "BlockHeader")))
	v.headerBlobAxioms(hk)
	stk, sn, _ := v.streamKeys()
	T := sel(v.heap(st, stk), id)
	n := sel(v.heap(st, sn), id)
	v.smt.assert(implies(fmt.Sprintf("(forall ((i Int)) (! (=> (and (<= 0 i) (< i %s)) (= (tk.kind (select %s i)) %s)) :pattern ((select %s i))))", n, T, hk, T), app("uf!hdrBlob", blob)))
}

// storeOpHook lets contracts assert a crash-consistency predicate after every individual store mutation (C10).
func (v *FnVerifier) storeOpHook(fr *Frame, st *State, c *ssa.CallCommon, op string) {
	if v.fc == nil || !fr.transparent {
		return
	}
	for _, as := range v.fc.Asserts {
		w := strings.Fields(as.Site)
		if len(w) == 2 && w[0] == "after" && w[1] == "store."+op {
			env := fr.specEnv(st, nil)
			env.retBlock = fr.curBlock
			env.atSite = true
			g, extra := env.boolTerm(as.Cl.Expr)
			v.siteCount["assert."+as.Label]++
			o := v.addObl(st, "assert", fmt.Sprintf("%s#%d", as.Label, v.siteCount["assert."+as.Label]), g, as.Cl.Text, pickProps(as.Cl, v.fc.Serves), c.Pos())
			o.Extra = extra
			v.assertHits[as.Label]++
		}
	}
}
