package main

// SMT-LIB text building: declarations, sorts, terms-as-strings.

import (
	"regexp"
	"fmt"
	"go/types"
	"sort"
	"strings"
)

// SMT collects declarations shared by every obligation generated for one function.
type SMT struct {
	sortDecls []string // in dependency order
	sortSeen  map[string]bool
	decls     []string
	declSeen  map[string]string // name -> sort
	asserts   []string          // definitions and guarded assumptions, in program order
	groups    []string          // parallel to asserts: "" = always included, else only for obligations of that group
	curGroup  string
	axioms    []string // closed facts about uninterpreted functions: premises of every obligation
	axiomSeen map[string]bool
	n         int
	strLits   map[string]string
	structs   map[string]*types.Struct // datatype name -> struct
	ufs       map[string]bool
	notes     map[string]bool // assumptions/abstractions used (for evidence)
}

func NewSMT() *SMT {
	s := &SMT{sortSeen: map[string]bool{}, declSeen: map[string]string{}, strLits: map[string]string{},
		structs: map[string]*types.Struct{}, ufs: map[string]bool{}, notes: map[string]bool{}, axiomSeen: map[string]bool{}}
	s.sortDecls = append(s.sortDecls,
		"(declare-datatypes ((Slice 0)) (((mk-slice (s.arr Int) (s.off Int) (s.len Int) (s.cap Int)))))",
		"(declare-datatypes ((Iface 0)) (((mk-iface (i.tag Int) (i.val Int)))))",
		"(declare-sort Str 0)",
		// slice element index: opaque to arithmetic normalisation so that quantifier patterns over s[k] match
		"(declare-fun ix (Int Int) Int)",
		"(assert (forall ((o Int) (k Int)) (! (= (ix o k) (+ o k)) :pattern ((ix o k)))))",
	)
	s.sortSeen["Slice"] = true
	s.sortSeen["Iface"] = true
	s.sortSeen["Str"] = true
	s.sortSeen["Int"] = true
	s.sortSeen["Bool"] = true
	return s
}

func (s *SMT) note(n string) { s.notes[n] = true }

func sanitize(x string) string {
	var b strings.Builder
	for _, r := range x {
		switch {
		case r >= 'a' && r <= 'z', r >= 'A' && r <= 'Z', r >= '0' && r <= '9', r == '_', r == '.', r == '$', r == '@', r == '!':
			b.WriteRune(r)
		case r == '*':
			b.WriteString("$p")
		case r == '[':
			b.WriteString("$l")
		case r == ']':
			b.WriteString("$r")
		case r == '/':
			b.WriteString(".")
		default:
			b.WriteString("_")
		}
	}
	return b.String()
}

// shortType gives a stable, readable name for a Go type.
func shortType(t types.Type) string {
	q := func(p *types.Package) string { return p.Name() }
	return sanitize(normBasic(types.TypeString(t, q)))
}

var reByte = regexp.MustCompile(`\bbyte\b`)
var reRune = regexp.MustCompile(`\brune\b`)

// normBasic: byte and uint8 (rune and int32) are one type and must share heaps and tags.
func normBasic(s string) string {
	return reRune.ReplaceAllString(reByte.ReplaceAllString(s, "uint8"), "int32")
}

func (s *SMT) declare(name, sort string) string {
	if old, ok := s.declSeen[name]; ok {
		if old != sort {
			panic(fmt.Sprintf("redeclare %s: %s vs %s", name, old, sort))
		}
		return name
	}
	s.declSeen[name] = sort
	s.decls = append(s.decls, fmt.Sprintf("(declare-fun %s () %s)", name, sort))
	return name
}

func (s *SMT) declareFun(name string, args []string, res string) string {
	sig := "(" + strings.Join(args, " ") + ") " + res
	if old, ok := s.declSeen[name]; ok {
		if old != sig {
			panic(fmt.Sprintf("redeclare fun %s: %s vs %s", name, old, sig))
		}
		return name
	}
	s.declSeen[name] = sig
	s.decls = append(s.decls, fmt.Sprintf("(declare-fun %s %s)", name, sig))
	return name
}

func (s *SMT) fresh(prefix, sort string) string {
	s.n++
	return s.declare(fmt.Sprintf("%s!%d", sanitize(prefix), s.n), sort)
}

func (s *SMT) assert(t string) {
	s.asserts = append(s.asserts, t)
	s.groups = append(s.groups, s.curGroup)
}

// axiom records a closed fact about uninterpreted functions; it is a premise of every obligation of the unit.
func (s *SMT) axiom(t string) {
	if !s.axiomSeen[t] {
		s.axiomSeen[t] = true
		s.axioms = append(s.axioms, t)
	}
}

// assertG records an assumption that only obligations of group g may use.
func (s *SMT) assertG(g, t string) {
	s.asserts = append(s.asserts, t)
	s.groups = append(s.groups, g)
}

// define declares name:=term and returns name.
func (s *SMT) define(prefix, sort, term string) string {
	n := s.fresh(prefix, sort)
	s.assert(eq(n, term))
	return n
}

func (s *SMT) strLit(v string) string {
	if n, ok := s.strLits[v]; ok {
		return n
	}
	n := fmt.Sprintf("str!%d", len(s.strLits))
	s.strLits[v] = n
	s.declare(n, "Str")
	return n
}

// ---- sorts ----

var opaqueNamed = map[string]bool{
	"time.Time": true, "sync.Mutex": true, "sync.RWMutex": true, "sync/atomic.Value": true,
	"sync.WaitGroup": true, "time.Duration": false,
}

func isOpaqueNamed(t types.Type) bool {
	n, ok := t.(*types.Named)
	if !ok {
		return false
	}
	if n.Obj().Pkg() == nil {
		return false
	}
	full := n.Obj().Pkg().Path() + "." + n.Obj().Name()
	if opaqueNamed[full] {
		return true
	}
	switch u := n.Underlying().(type) {
	case *types.Array:
		_ = u
		return true // Hash32, Hash20, … : value sorts with equality only
	case *types.Struct:
		// structs from outside the repository with unexported internals are opaque
		p := n.Obj().Pkg().Path()
		if !strings.HasPrefix(p, "github.com/tokenized/spynode") && !transparentExt[full] {
			return true
		}
	}
	return false
}

// external struct types whose fields the repository code reads/writes directly.
var transparentExt = map[string]bool{
	"github.com/tokenized/pkg/wire.BlockHeader":         true,
	"github.com/tokenized/pkg/wire.OutPoint":            true,
	"github.com/tokenized/pkg/wire.MsgTx":               true,
	"github.com/tokenized/pkg/wire.TxIn":                true,
	"github.com/tokenized/pkg/wire.TxOut":               true,
	"github.com/tokenized/pkg/wire.InvVect":             true,
	"github.com/tokenized/pkg/wire.MsgGetData":          true,
	"github.com/tokenized/pkg/wire.MsgHeaders":          true,
	"github.com/tokenized/pkg/wire.MsgInv":              true,
	"github.com/tokenized/pkg/wire.MsgTxn":              true,
	"github.com/tokenized/pkg/wire.MsgGetHeaders":       true,
	"github.com/tokenized/pkg/bitcoin.UTXO":             true,
	"github.com/tokenized/pkg/wire.MerkleProof":         true,
	"github.com/tokenized/pkg/merkle_proof.MerkleProof": false,
	"github.com/tokenized/pkg/merchant_api.FeeQuote":    true,
	"github.com/tokenized/pkg/merchant_api.Fee":         true,
}

func structName(t types.Type) string {
	if n, ok := t.(*types.Named); ok {
		return shortType(n)
	}
	return shortType(t)
}

// sortOf maps a Go type to an SMT sort, declaring datatypes on demand.
func (s *SMT) sortOf(t types.Type) string {
	switch u := t.(type) {
	case *types.Named:
		if isOpaqueNamed(u) {
			n := "O!" + shortType(u)
			s.declSort(n)
			return n
		}
		if st, ok := u.Underlying().(*types.Struct); ok {
			return s.structSort(structName(u), st)
		}
		return s.sortOf(u.Underlying())
	case *types.Alias:
		return s.sortOf(types.Unalias(u))
	case *types.Basic:
		switch {
		case u.Info()&types.IsBoolean != 0:
			return "Bool"
		case u.Info()&types.IsInteger != 0:
			return "Int"
		case u.Info()&types.IsString != 0:
			return "Str"
		case u.Info()&types.IsFloat != 0:
			return "Real"
		case u.Kind() == types.UnsafePointer:
			return "Int"
		case u.Kind() == types.UntypedNil:
			return "Int"
		}
	case *types.Pointer, *types.Map, *types.Chan, *types.Signature:
		return "Int"
	case *types.Slice:
		return "Slice"
	case *types.Interface:
		return "Iface"
	case *types.Struct:
		return s.structSort(structName(u), u)
	case *types.Array:
		return "(Array Int " + s.sortOf(u.Elem()) + ")"
	case *types.TypeParam:
		return "Int"
	}
	panic(fmt.Sprintf("sortOf: unsupported type %s (%T)", t, t))
}

func (s *SMT) declSort(n string) {
	if !s.sortSeen[n] {
		s.sortSeen[n] = true
		s.sortDecls = append(s.sortDecls, fmt.Sprintf("(declare-sort %s 0)", n))
	}
}

func (s *SMT) structSort(name string, st *types.Struct) string {
	n := "S!" + name
	if s.sortSeen[n] {
		return n
	}
	s.sortSeen[n] = true
	s.structs[n] = st
	var fs []string
	for i := 0; i < st.NumFields(); i++ {
		f := st.Field(i)
		fs = append(fs, fmt.Sprintf("(%s!%s %s)", n, f.Name(), s.sortOf(f.Type())))
	}
	if len(fs) == 0 {
		fs = append(fs, fmt.Sprintf("(%s!_unit Int)", n))
	}
	s.sortDecls = append(s.sortDecls, fmt.Sprintf("(declare-datatypes ((%s 0)) (((mk!%s %s))))", n, n, strings.Join(fs, " ")))
	return n
}

// zeroOf returns the zero value term of a Go type.
func (s *SMT) zeroOf(t types.Type) string {
	sort := s.sortOf(t)
	return s.zeroOfSort(sort, t)
}

func (s *SMT) zeroOfSort(sort string, t types.Type) string {
	switch sort {
	case "Bool":
		return "false"
	case "Int":
		return "0"
	case "Real":
		return "0.0"
	case "Str":
		return s.strLit("")
	case "Slice":
		return "(mk-slice 0 0 0 0)"
	case "Iface":
		return "(mk-iface 0 0)"
	}
	if strings.HasPrefix(sort, "S!") {
		st := s.structs[sort]
		var fs []string
		for i := 0; i < st.NumFields(); i++ {
			fs = append(fs, s.zeroOf(st.Field(i).Type()))
		}
		if len(fs) == 0 {
			fs = []string{"0"}
		}
		return fmt.Sprintf("(mk!%s %s)", sort, strings.Join(fs, " "))
	}
	if strings.HasPrefix(sort, "O!") {
		return s.declare("zero!"+sort[2:], sort)
	}
	if strings.HasPrefix(sort, "(Array Int ") {
		if a, ok := t.Underlying().(*types.Array); ok {
			return fmt.Sprintf("((as const %s) %s)", sort, s.zeroOf(a.Elem()))
		}
	}
	panic("zeroOfSort: " + sort)
}

// ---- term helpers ----

func eq(a, b string) string  { return "(= " + a + " " + b + ")" }
func not(a string) string    { return "(not " + a + ")" }
func sel(a, i string) string { return "(select " + a + " " + i + ")" }
func sto(a, i, v string) string {
	return "(store " + a + " " + i + " " + v + ")"
}
func ite(c, a, b string) string { return "(ite " + c + " " + a + " " + b + ")" }
func implies(a, b string) string {
	if a == "true" {
		return b
	}
	return "(=> " + a + " " + b + ")"
}
func and(xs ...string) string {
	var ys []string
	for _, x := range xs {
		if x == "true" || x == "" {
			continue
		}
		if x == "false" {
			return "false"
		}
		ys = append(ys, x)
	}
	switch len(ys) {
	case 0:
		return "true"
	case 1:
		return ys[0]
	}
	return "(and " + strings.Join(ys, " ") + ")"
}
func or(xs ...string) string {
	var ys []string
	for _, x := range xs {
		if x == "false" || x == "" {
			continue
		}
		if x == "true" {
			return "true"
		}
		ys = append(ys, x)
	}
	switch len(ys) {
	case 0:
		return "false"
	case 1:
		return ys[0]
	}
	return "(or " + strings.Join(ys, " ") + ")"
}
func app(f string, args ...string) string {
	if len(args) == 0 {
		return f
	}
	return "(" + f + " " + strings.Join(args, " ") + ")"
}
func num(n int64) string {
	if n < 0 {
		return fmt.Sprintf("(- %d)", -n)
	}
	return fmt.Sprintf("%d", n)
}

// Go truncating division / remainder on mathematical integers.
func goDiv(a, b string) string {
	if n, ok := smallPosConst(b); ok {
		return fmt.Sprintf("(ite (>= %s 0) (div %s %d) (- (div (- %s) %d)))", a, a, n, a, n)
	}
	// SMT div is floor for positive divisor, ceiling for negative (Euclidean). Go truncates toward zero.
	return fmt.Sprintf("(ite (>= %s 0) (ite (> %s 0) (div %s %s) (- (div %s (- %s)))) (ite (> %s 0) (- (div (- %s) %s)) (div (- %s) (- %s))))",
		a, b, a, b, a, b, b, a, b, a, b)
}
func goRem(a, b string) string {
	return fmt.Sprintf("(- %s (* %s %s))", a, b, goDiv(a, b))
}

// Prelude builds the text before the per-obligation part.
func (s *SMT) Prelude() string {
	var b strings.Builder
	b.WriteString("(set-option :produce-models true)\n(set-logic ALL)\n")
	for _, d := range s.sortDecls {
		b.WriteString(d)
		b.WriteByte('\n')
	}
	for _, d := range s.decls {
		b.WriteString(d)
		b.WriteByte('\n')
	}
	// distinct string literals
	if len(s.strLits) > 1 {
		var names []string
		for _, n := range s.strLits {
			names = append(names, n)
		}
		sort.Strings(names)
		b.WriteString("(assert (distinct " + strings.Join(names, " ") + "))\n")
	}
	return b.String()
}

func smallPosConst(t string) (int64, bool) {
	var n int64
	if _, err := fmt.Sscanf(t, "%d", &n); err == nil && fmt.Sprintf("%d", n) == t && n > 0 {
		return n, true
	}
	return 0, false
}
