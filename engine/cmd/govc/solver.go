package main

import (
	"bytes"
	"context"
	"fmt"
	"os"
	"os/exec"
	"path/filepath"
	"strings"
	"sync"
	"time"
)

type solverSpec struct {
	name string
	argv func(file string, timeoutS int, seed int) []string
}

var solvers = []solverSpec{
	// first: pattern-based instantiation only (fast and insensitive to seeds); a proof found this way is stable
	{"z3-new-5.1.0(ematch)", func(f string, t int, seed int) []string {
		return []string{"z3-new", fmt.Sprintf("-T:%d", t), "smt.mbqi=false", "smt.auto_config=false", fmt.Sprintf("smt.random_seed=%d", seed), f}
	}},
	{"z3-4.8.12", func(f string, t int, seed int) []string {
		return []string{"z3", fmt.Sprintf("-T:%d", t), fmt.Sprintf("smt.random_seed=%d", seed), f}
	}},
	{"z3-new-5.1.0", func(f string, t int, seed int) []string {
		return []string{"z3-new", fmt.Sprintf("-T:%d", t), fmt.Sprintf("smt.random_seed=%d", seed), fmt.Sprintf("sat.random_seed=%d", seed), f}
	}},
	// proofs that need model-based instantiation depend on the solver's random choices: retry with other seeds
	{"z3-new-5.1.0(seed+1)", func(f string, t int, seed int) []string {
		return []string{"z3-new", fmt.Sprintf("-T:%d", t), fmt.Sprintf("smt.random_seed=%d", seed+1), fmt.Sprintf("sat.random_seed=%d", seed+1), f}
	}},
	{"z3-new-5.1.0(seed+2,relevancy0)", func(f string, t int, seed int) []string {
		return []string{"z3-new", fmt.Sprintf("-T:%d", t), fmt.Sprintf("smt.random_seed=%d", seed+2), "smt.relevancy=0", f}
	}},
	{"cvc5-1.0", func(f string, t int, seed int) []string {
		return []string{"cvc5", "--lang", "smt2", fmt.Sprintf("--tlimit=%d", t*1000), fmt.Sprintf("--seed=%d", seed), f}
	}},
}

func runSolver(sp solverSpec, file string, timeoutS, seed int) (verdict string, out string, dur float64) {
	argv := sp.argv(file, timeoutS, seed)
	ctx, cancel := context.WithTimeout(context.Background(), time.Duration(timeoutS+5)*time.Second)
	defer cancel()
	t0 := time.Now()
	cmd := exec.CommandContext(ctx, argv[0], argv[1:]...)
	var buf bytes.Buffer
	cmd.Stdout = &buf
	cmd.Stderr = &buf
	cmd.Run()
	dur = time.Since(t0).Seconds()
	out = buf.String()
	first := ""
	for _, ln := range strings.Split(out, "\n") {
		ln = strings.TrimSpace(ln)
		if ln == "" || strings.HasPrefix(ln, "WARNING") {
			continue
		}
		first = ln
		break
	}
	switch first {
	case "sat", "unsat", "unknown":
		return first, out, dur
	case "timeout":
		return "unknown", out, dur
	}
	if strings.Contains(out, "timeout") || ctx.Err() != nil {
		return "unknown", out, dur
	}
	if strings.HasPrefix(first, "(error") {
		// a malformed query is a defect of the generator: never let it pass as a verdict of another line
		return "error", out, dur
	}
	return "error", out, dur
}

// Discharge runs every obligation, racing the installed solvers in sequence.
func Discharge(obls []*Obligation, workDir string, timeoutS, seed int, crossCheck bool) {
	os.MkdirAll(workDir, 0o755)
	var wg sync.WaitGroup
	sem := make(chan struct{}, 16)
	for i, o := range obls {
		wg.Add(1)
		sem <- struct{}{}
		go func(i int, o *Obligation) {
			defer wg.Done()
			defer func() { <-sem }()
			file := filepath.Join(workDir, fmt.Sprintf("%04d_%s.smt2", i, sanitize(o.Name)))
			q := o.Query()
			want := "unsat"
			if o.Cover {
				want = "sat"
			}
			if !o.Cover {
				q += "(get-model)\n"
			}
			os.WriteFile(file, []byte(q), 0o644)
			o.File = file
			if len(q) > 4<<20 {
				o.Verdict = "undecided"
				o.Output = "query exceeds the 4 MB cap"
				return
			}
			var lastOut string
			if o.Cover {
				// vacuity guard: is the path condition refutable by the same means that discharge goals?
				// E-matching only: "unsat" = contradictory assumptions; anything else = not refuted.
				sp := solverSpec{"z3-new-5.1.0(ematch)", func(f string, t int, seed int) []string {
					return []string{"z3-new", fmt.Sprintf("-T:%d", t), "smt.mbqi=false", "smt.auto_config=false", f}
				}}
				verdict, out, dur := runSolver(sp, file, 5, seed)
				o.TimeS += dur
				o.Solver = sp.name
				o.Output = out
				if verdict == "unsat" {
					o.Verdict = "cover-failed"
				} else {
					o.Verdict = "cover-ok"
				}
				return
			}
			for si, sp := range solvers {
				if o.Known && si >= 2 {
					break // a recorded finding: do not spend the retries on it
				}
				tmo := timeoutS
				if o.Known {
					tmo = 5
				}
				verdict, out, dur := runSolver(sp, file, tmo, seed)
				o.TimeS += dur
				lastOut = out
				if verdict == "sat" || verdict == "unsat" {
					o.Solver = sp.name
					o.Output = out
					if o.Cover {
						if verdict == want {
							o.Verdict = "cover-ok"
						} else {
							o.Verdict = "cover-failed"
						}
						return
					}
					if verdict == "unsat" {
						o.Verdict = "discharged"
					} else {
						o.Verdict = "failed"
					}
					if crossCheck && (sp.name == solvers[0].name || sp.name == solvers[1].name) {
						// a second opinion from the other z3 generation: disagreement = broken check
						other := solvers[2]
						if sp.name == solvers[0].name {
							other = solvers[1]
						}
						v2, out2, d2 := runSolver(other, file, timeoutS, seed)
						o.TimeS += d2
						if (v2 == "sat" || v2 == "unsat") && v2 != verdict {
							o.Verdict = "solver-disagreement"
							o.Output = out + "\n--- " + other.name + " ---\n" + out2
						}
					}
					return
				}
			}
			if o.Cover {
				// unknown on a reachability query: not a proof of unreachability; accept (quantified context)
				o.Verdict = "cover-ok"
				o.Solver = "none(unknown)"
				o.Output = lastOut
				return
			}
			o.Verdict = "undecided"
			o.Output = lastOut
		}(i, o)
	}
	wg.Wait()
}
