package main

// Assumed models of the dependency types block processing leans on (C02, C03, C04, C06):
// wire.Block (an iterator over the transactions of a block message) and wire.MerkleTree
// (accumulates leaves, produces the root and the proofs that were asked for).

import (
	"fmt"
	"go/token"
	"go/types"

	"golang.org/x/tools/go/ssa"
)

func (v *FnVerifier) mtKeys() (nreq, req, regLeaf, nleaf, leaf string) {
	hs := v.smt.sortOf(v.eng.lookupType(pkgBitcoin, "Hash32"))
	nreq = v.ghostKey("mt.nreq", "(Array Int Int)")
	req = v.ghostKey("mt.req", "(Array Int (Array Int "+hs+"))")
	regLeaf = v.ghostKey("mt.regleaf", "(Array Int (Array Int Int))")
	nleaf = v.ghostKey("mt.nleaf", "(Array Int Int)")
	leaf = v.ghostKey("mt.leaf", "(Array Int (Array Int "+hs+"))")
	return
}

func mtMods(e *Engine) func(ms *ModSet, c *ssa.CallCommon) {
	return func(ms *ModSet, c *ssa.CallCommon) {
		hs := "O!bitcoin.Hash32"
		ms.add(KeyInfo{Key: "GH!mt.nreq", Ghost: "(Array Int Int)"})
		ms.add(KeyInfo{Key: "GH!mt.req", Ghost: "(Array Int (Array Int " + hs + "))"})
		ms.add(KeyInfo{Key: "GH!mt.regleaf", Ghost: "(Array Int (Array Int Int))"})
		ms.add(KeyInfo{Key: "GH!mt.nleaf", Ghost: "(Array Int Int)"})
		ms.add(KeyInfo{Key: "GH!mt.leaf", Ghost: "(Array Int (Array Int " + hs + "))"})
	}
}

// hashArg: the Hash32 value passed by value (possibly through a cell).
func (fr *Frame) valueArg(st *State, a ssa.Value, val Val) string {
	if val.Loc != nil {
		return fr.v.loadLoc(st, val.Loc)
	}
	return val.T
}

func init() {
	mods := mtMods(nil)
	reg("github.com/tokenized/pkg/wire.NewMerkleTree", "a new merkle tree: no leaves, no proof requests", mods, func(fr *Frame, st *State, c *ssa.CallCommon, args []Val, res ssa.Value) Val {
		v := fr.v
		nreq, _, _, nleaf, _ := v.mtKeys()
		r := v.newRef(st, "mtree")
		v.setHeap(st, nreq, sto(v.heap(st, nreq), r, "0"))
		v.setHeap(st, nleaf, sto(v.heap(st, nleaf), r, "0"))
		out := Val{T: r}
		fr.setResult(res, out)
		return out
	})
	reg("(*github.com/tokenized/pkg/wire.MerkleTree).AddMerkleProof", "registers a proof request for the txid; it will resolve to the next leaf equal to that txid (the request remembers the current leaf count)", mods,
		func(fr *Frame, st *State, c *ssa.CallCommon, args []Val, res ssa.Value) Val {
			v := fr.v
			nreq, req, regLeaf, nleaf, _ := v.mtKeys()
			t := args[0].T
			h := fr.valueArg(st, c.Args[1], args[1])
			n := sel(v.heap(st, nreq), t)
			v.setHeap(st, req, sto(v.heap(st, req), t, sto(sel(v.heap(st, req), t), n, h)))
			v.setHeap(st, regLeaf, sto(v.heap(st, regLeaf), t, sto(sel(v.heap(st, regLeaf), t), n, sel(v.heap(st, nleaf), t))))
			v.setHeap(st, nreq, sto(v.heap(st, nreq), t, "(+ "+n+" 1)"))
			return Val{}
		})
	reg("(*github.com/tokenized/pkg/wire.MerkleTree).AddHash", "appends a leaf", mods, func(fr *Frame, st *State, c *ssa.CallCommon, args []Val, res ssa.Value) Val {
		v := fr.v
		_, _, _, nleaf, leaf := v.mtKeys()
		t := args[0].T
		h := fr.valueArg(st, c.Args[1], args[1])
		n := sel(v.heap(st, nleaf), t)
		v.setHeap(st, leaf, sto(v.heap(st, leaf), t, sto(sel(v.heap(st, leaf), t), n, h)))
		v.setHeap(st, nleaf, sto(v.heap(st, nleaf), t, "(+ "+n+" 1)"))
		return Val{}
	})
	reg("(github.com/tokenized/pkg/wire.MerkleTree).FinalizeMerkleProofs", "returns the merkle root of the leaves (an uninterpreted function of the leaf list) and one proof per request, in request order: proof k is for request k's txid, with Index the leaf position recorded for it, and verifies against that root (library semantics, assumed)", nil,
		func(fr *Frame, st *State, c *ssa.CallCommon, args []Val, res ssa.Value) Val {
			v := fr.v
			nreq, req, regLeaf, nleaf, leaf := v.mtKeys()
			ld, ok := c.Args[0].(*ssa.UnOp)
			if !ok || ld.Op != token.MUL {
				v.unsupported("FinalizeMerkleProofs on a tree value that is not *ptr")
			}
			t := fr.term(st, ld.X)
			hs := v.smt.sortOf(v.eng.lookupType(pkgBitcoin, "Hash32"))
			rootF := v.smt.declareFun("uf!merkleRoot", []string{"(Array Int " + hs + ")", "Int"}, hs)
			root := app(rootF, sel(v.heap(st, leaf), t), sel(v.heap(st, nleaf), t))
			mpT := v.eng.lookupType(pkgWire, "MerkleProof")
			pt := types.NewPointer(mpT)
			arr := v.newRef(st, "proofs")
			n := sel(v.heap(st, nreq), t)
			ek := v.elemKey(pt)
			row := v.smt.fresh("proofs.row", "(Array Int Int)")
			v.setHeap(st, ek, sto(v.heap(st, ek), arr, row))
			// proof k: a distinct non-nil object labelled with (tree, k)
			pf := v.smt.declareFun("uf!proofOf", []string{"Int", "Int"}, "Int")
			v.smt.assert(fmt.Sprintf("(forall ((k Int)) (! (=> (and (<= 0 k) (< k %s)) (and (= (select %s (ix 0 k)) (%s %s k)) (not (= (%s %s k) 0)) (< (%s %s k) %s))) :pattern ((ix 0 k))))", n, row, pf, t, pf, t, pf, t, v.alloc(st)))
			// labels usable in contracts
			txOf := v.smt.declareFun("uf!proofTx", []string{"Int"}, hs)
			rootOf := v.smt.declareFun("uf!proofRoot", []string{"Int"}, hs)
			_, mpS := namedStruct(mpT)
			idxHeap := ""
			for i := 0; i < mpS.NumFields(); i++ {
				if mpS.Field(i).Name() == "Index" {
					idxHeap = v.heap(st, v.fieldKey(mpT, i))
				}
			}
			v.smt.assert(fmt.Sprintf("(forall ((k Int)) (! (=> (and (<= 0 k) (< k %s)) (and (= (%s (%s %s k)) (select (select %s %s) k)) (= (select %s (%s %s k)) (select (select %s %s) k)) (= (%s (%s %s k)) %s))) :pattern ((%s %s k))))",
				n, txOf, pf, t, v.heap(st, req), t, idxHeap, pf, t, v.heap(st, regLeaf), t, rootOf, pf, t, root, pf, t))
			out := Val{Tuple: []Val{{T: root}, {T: fmt.Sprintf("(mk-slice %s 0 %s %s)", arr, n, n)}}}
			fr.setResult(res, out)
			return out
		})

	// ---- wire.Block ----
	regInvoke("github.com/tokenized/pkg/wire.Block.GetHeader", "the block's header: an uninterpreted function of the block value", nil, pureUF("uf!blockHeader"))
	regInvoke("github.com/tokenized/pkg/wire.Block.GetTxCount", "an uninterpreted function of the block value", nil, pureUF("uf!blockTxCount"))
	regInvoke("github.com/tokenized/pkg/wire.Block.GetNextTx", "the next transaction of the block (nil after the last) or an error; a ghost counter records how many were handed out", func(ms *ModSet, c *ssa.CallCommon) {
		ms.add(KeyInfo{Key: "GH!blk.pos", Ghost: "(Array Int Int)"})
	}, func(fr *Frame, st *State, c *ssa.CallCommon, args []Val, res ssa.Value) Val {
		v := fr.v
		k := v.ghostKey("blk.pos", "(Array Int Int)")
		id := "(i.val " + args[0].T + ")"
		out := fr.freshResult(st, c, res)
		p := sel(v.heap(st, k), id)
		got := and(eq(out.Tuple[1].T, "(mk-iface 0 0)"), not(eq(out.Tuple[0].T, "0")))
		v.setHeap(st, k, ite(got, sto(v.heap(st, k), id, "(+ "+p+" 1)"), v.heap(st, k)))
		return out
	})
}

// ---- bitcoin scripts as item lists (C08) ----------------------------------------------------
//
// A script read through a *bytes.Reader is a list of well-formed items — data pushes (kind tkPush,
// payload = blob of the pushed bytes) and other opcodes (kind tkOp) — followed by the end of the
// script or by something malformed. ParsePushDataScript hands out the next item, reports
// ErrNotPushOp for a non-push opcode, and another error once the well-formed items are used up:
// io.EOF at a clean end, anything else at a malformation - after which the reader is positioned
// inside the broken item and further calls return arbitrary items (ghost flag sdirty).

const (
	tkPush = 7
	tkOp   = 8
)

func init() {
	reg("github.com/tokenized/pkg/bitcoin.ParsePushDataScript", "next script item of the reader: a push (its data), a non-push opcode (ErrNotPushOp); after the well-formed items either the clean end (io.EOF, repeatedly) or a malformation (some other error) after which the reader sits inside the broken item and later calls return arbitrary items; the stream advances by one item", func(ms *ModSet, c *ssa.CallCommon) {
		readMods(ms, c)
		ms.add(KeyInfo{Key: "GH!sdirty", Ghost: "(Array Int Bool)"})
	},
		func(fr *Frame, st *State, c *ssa.CallCommon, args []Val, res ssa.Value) Val {
			v := fr.v
			stk, sn, sp := v.streamKeys()
			dk := v.ghostKey("sdirty", "(Array Int Bool)")
			id := args[0].T
			pos := sel(v.heap(st, sp), id)
			cnt := sel(v.heap(st, sn), id)
			tok := sel(sel(v.heap(st, stk), id), pos)
			dirty := v.smt.define("ps.dirty", "Bool", sel(v.heap(st, dk), id))
			avail := v.smt.define("ps.avail", "Bool", and(not(dirty), "(<= 0 "+pos+")", "(< "+pos+" "+cnt+")"))
			atEnd := and(not(dirty), not(avail))
			isPush := and(avail, eq("(tk.kind "+tok+")", fmt.Sprint(tkPush)))
			isOp := and(avail, not(eq("(tk.kind "+tok+")", fmt.Sprint(tkPush))))
			out := fr.freshResult(st, c, res)
			errT := out.Tuple[2].T
			notPush := v.sentinelTerm("github.com/tokenized/pkg/bitcoin.ErrNotPushOp")
			eof := v.sentinelTerm("io.EOF")
			v.smt.assert(implies(isPush, eq(errT, "(mk-iface 0 0)")))
			v.smt.assert(implies(isOp, eq(errT, notPush)))
			v.smt.assert(implies(atEnd, and(not(eq(errT, "(mk-iface 0 0)")), not(eq(errT, notPush)))))
			// the data of a push: a fresh slice whose blob is the token's payload; once the reader
			// is inside a broken item the payload is whatever bytes happen to follow
			blen := v.smt.declareFun("uf!blobLen", []string{"Int"}, "Int")
			arr := v.newRef(st, "push")
			junk := v.smt.fresh("ps.junk", "Int")
			payload := v.smt.define("ps.payload", "Int", ite(dirty, junk, "(tk.val "+tok+")"))
			v.setHeap(st, v.blobKey(), sto(v.heap(st, v.blobKey()), arr, payload))
			data := out.Tuple[1].T
			gotData := or(isPush, and(dirty, eq(errT, "(mk-iface 0 0)")))
			v.smt.assert(implies(gotData, or(and(eq(app(blen, payload), "0"), eq("(s.len "+data+")", "0")),
				and(eq("(s.arr "+data+")", arr), eq("(s.off "+data+")", "0"), eq("(s.len "+data+")", app(blen, payload)), eq("(s.cap "+data+")", app(blen, payload))))))
			P := v.heap(st, sp)
			v.setHeap(st, sp, ite(avail, sto(P, id, "(+ "+pos+" 1)"), P))
			// a malformation (an error other than the clean end) leaves the reader inside the item
			D := v.heap(st, dk)
			v.setHeap(st, dk, ite(and(atEnd, not(eq(errT, eof))), sto(D, id, "true"), D))
			return out
		})
	reg("github.com/tokenized/pkg/bitcoin.Hash160", "a fresh 20-byte slice whose blob is an uninterpreted function Hash160 of the argument's blob", func(ms *ModSet, c *ssa.CallCommon) {
		k := kiElem(types.Typ[types.Uint8])
		k.FreshOnly = true
		ms.add(k)
		ms.add(KeyInfo{Key: "GH!blob", Ghost: "(Array Int Int)", FreshOnly: true})
	}, func(fr *Frame, st *State, c *ssa.CallCommon, args []Val, res ssa.Value) Val {
		v := fr.v
		b := fr.term(st, c.Args[0])
		f := v.smt.declareFun("uf!hash160", []string{"Int"}, "Int")
		blen := v.smt.declareFun("uf!blobLen", []string{"Int"}, "Int")
		h := app(f, v.sliceBlob(st, b))
		v.smt.axiom(fmt.Sprintf("(forall ((x Int)) (! (= (%s (%s x)) 20) :pattern ((%s x))))", blen, f, f))
		arr := v.newRef(st, "h160")
		v.setHeap(st, v.blobKey(), sto(v.heap(st, v.blobKey()), arr, h))
		out := Val{T: fmt.Sprintf("(mk-slice %s 0 20 20)", arr)}
		fr.setResult(res, out)
		return out
	})
}

// ---- Tokenized protocol (C08) ---------------------------------------------------------------------
func init() {
	reg("github.com/tokenized/specification/dist/golang/protocol.Deserialize", "decodes a Tokenized action from a locking script: an uninterpreted function of the script bytes and the test flag; a nil error comes with a non-nil action, an error with a nil one", nil,
		func(fr *Frame, st *State, c *ssa.CallCommon, args []Val, res ssa.Value) Val {
			v := fr.v
			out := fr.freshResult(st, c, res)
			f := v.smt.declareFun("uf!TokenizedAction", []string{"Int", "Bool"}, "Iface")
			act := app(f, v.sliceBlob(st, fr.term(st, c.Args[0])), fr.term(st, c.Args[1]))
			v.smt.assert(eq(out.Tuple[0].T, act))
			v.smt.assert(eq(eq(out.Tuple[1].T, "(mk-iface 0 0)"), not(eq(act, "(mk-iface 0 0)"))))
			return out
		})
}

// ---- outgoing messages (C14) ---------------------------------------------------------------------
func init() {
	regInvoke("github.com/tokenized/spynode/internal/state.MessageTransmitter.TransmitMessage", "hands a message to the connection's outgoing queue: a ghost flag records that this message object was transmitted; result unconstrained (false = node stopping)", func(ms *ModSet, c *ssa.CallCommon) {
		ms.add(KeyInfo{Key: "GH!transmitted", Ghost: "(Array Int Bool)"})
	}, func(fr *Frame, st *State, c *ssa.CallCommon, args []Val, res ssa.Value) Val {
		v := fr.v
		k := v.ghostKey("transmitted", "(Array Int Bool)")
		msg := fr.term(st, c.Args[0])
		v.setHeap(st, k, sto(v.heap(st, k), "(i.val "+msg+")", "true"))
		return fr.freshResult(st, c, res)
	})
}
