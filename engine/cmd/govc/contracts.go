package main

// Reader for //@ contract blocks in /repo/<pkg>/zz_contracts_verif.go.

import (
	"bufio"
	"fmt"
	"os"
	"path/filepath"
	"regexp"
	"strconv"
	"strings"
)

type Clause struct {
	Label string
	Text  string
	Expr  *Node
	Line  int
	File  string
	AfterLoop int  // ensures only: >0 means "checked only at returns dominated by the header of loop AfterLoop-1"
	Props []string // properties named on the clause: added to the function's (a hint for the reader) unless Only
	Only  bool     // [only Cxx …]: the clause serves exactly these properties (used for clauses with recorded findings)
	// Group: assumptions made from this clause (assumed invariant, callee postcondition) are visible only to
	// obligations generated from clauses of the same group; ungrouped assumptions are visible to all.
	// Used to keep mutually triggering quantified facts (forall-exists both ways) out of each other's context.
	Group string
}

type LoopSpec struct {
	Invariants []*Clause
	Decreases  *Clause
}

type AssertSpec struct {
	IfAny bool // no site at all is fine
	Label string
	Site  string // e.g. "call HandleTx", "store field", "return"
	Cl    *Clause
}

type FuncContract struct {
	Name     string // "(*State).AddBlock" or "lastHash"
	Pkg      string // package path
	Serves   []string
	Requires []*Clause
	Ensures  []*Clause
	Given    []*Clause // facts assumed on entry and not demanded of callers (package-level constants etc.; listed as trusted)
	Assumed  []*Clause // postconditions handed to callers but not checked against the body (listed as trusted)
	Lets     []*SpecDef
	Loops    map[int]*LoopSpec
	Asserts  []*AssertSpec
	SafetyProps []string
	Safety   map[string]bool
	Inline   bool
	Atomic   string // mutex field name if the body is a monitor operation
	Pure     bool
	Trusted  bool // contract is assumed, body not verified (listed in evidence)
	File     string
	Line     int
	Opts     map[string]string
	Splits   map[string]*SplitSpec
}

// SplitSpec: prove the labelled clause separately for each value of Expr in [Lo,Hi) and for the rest.
type SplitSpec struct {
	Expr   *Node
	Lo, Hi int
}

type SpecDef struct {
	Name   string
	Params []string
	Body   *Node
	Text   string
	Line   int
}

type LemmaDef struct {
	Name   string
	Serves []string
	Params []*Node // NTypeDecl nodes
	Body   *Clause
	Pkg    string
	Uses   []string
}

type TypeContract struct {
	Name    string
	Pkg     string
	Guarded map[string][]string // mutex field -> guarded "Type.field" names
	Closed  bool                // interface: every implementation is among the loaded packages (stated assumption)
	Callbacks bool              // interface implemented by the application: its methods are assumed not to re-enter the repository's objects
	Sent    *Clause             // message invariant over v (*T): asserted at every send, assumed at every receive
}

type Contracts struct {
	Funcs  map[string]*FuncContract // key pkgpath + " " + name
	Specs  map[string]*SpecDef      // key pkgpath + " " + name
	Lemmas []*LemmaDef
	Types  map[string]*TypeContract
	Files  []string
	Scan   []string // assume/axiom/trusted lines found (reported in evidence)
}

var clauseKW = map[string]bool{"serves": true, "requires": true, "ensures": true, "let": true, "loop": true,
	"assert": true, "safety": true, "inline": true, "atomic": true, "pure": true, "trusted": true, "guarded_by": true,
	"uses": true, "opt": true, "split": true, "closed": true, "sent": true, "assumes": true, "callbacks": true, "given": true}

func fkey(pkg, name string) string { return pkg + " " + name }

var labelRe = regexp.MustCompile(`^([A-Za-z_][A-Za-z0-9_\.]*)\s*:\s+(.*)$`)
var groupRe = regexp.MustCompile(`^\{([A-Za-z0-9_]+)\}\s*(.*)$`)
var propTagRe = regexp.MustCompile(`^\[((?:only )?[C0-9, ]+)\]\s*(.*)$`)

func LoadContracts(repo string, pkgDirs map[string]string) (*Contracts, error) {
	cs := &Contracts{Funcs: map[string]*FuncContract{}, Specs: map[string]*SpecDef{}, Types: map[string]*TypeContract{}}
	for pkgPath, dir := range pkgDirs {
		files, _ := filepath.Glob(filepath.Join(dir, "zz_contracts*_verif.go"))
		for _, f := range files {
			if err := cs.loadFile(f, pkgPath); err != nil {
				return nil, err
			}
			cs.Files = append(cs.Files, f)
		}
	}
	return cs, nil
}

type rawLine struct {
	indent int
	text   string
	line   int
}

func (cs *Contracts) loadFile(path, pkg string) error {
	fh, err := os.Open(path)
	if err != nil {
		return err
	}
	defer fh.Close()
	var lines []rawLine
	sc := bufio.NewScanner(fh)
	sc.Buffer(make([]byte, 1<<20), 1<<20)
	ln := 0
	for sc.Scan() {
		ln++
		t := sc.Text()
		if !strings.HasPrefix(t, "//@") {
			continue
		}
		body := t[3:]
		if i := strings.Index(body, " -- "); i >= 0 { // trailing comment
			body = body[:i]
		}
		trim := strings.TrimLeft(body, " \t")
		if trim == "" || strings.HasPrefix(trim, "--") {
			continue
		}
		indent := len(body) - len(trim)
		lines = append(lines, rawLine{indent, strings.TrimRight(trim, " \t"), ln})
	}
	// join continuation lines: a line continues the previous clause if its indent is >= 6
	// and its first word is not a clause keyword at clause indent
	var joined []rawLine
	for _, l := range lines {
		first := strings.Fields(l.text)[0]
		isHeader := l.indent <= 1
		isClause := !isHeader && l.indent <= 4 && clauseKW[first]
		if !isHeader && !isClause && len(joined) > 0 {
			joined[len(joined)-1].text += " " + l.text
			continue
		}
		joined = append(joined, l)
	}
	var curF *FuncContract
	var curT *TypeContract
	var curL *LemmaDef
	for _, l := range joined {
		fields := strings.Fields(l.text)
		kw := fields[0]
		rest := strings.TrimSpace(strings.TrimPrefix(l.text, kw))
		if l.indent <= 1 {
			curF, curT, curL = nil, nil, nil
			switch kw {
			case "func":
				curF = &FuncContract{Name: rest, Pkg: pkg, Loops: map[int]*LoopSpec{}, Safety: map[string]bool{}, File: path, Line: l.line, Opts: map[string]string{}, Splits: map[string]*SplitSpec{}}
				if _, dup := cs.Funcs[fkey(pkg, rest)]; dup {
					return fmt.Errorf("%s:%d: duplicate contract for %s", path, l.line, rest)
				}
				cs.Funcs[fkey(pkg, rest)] = curF
			case "type":
				curT = &TypeContract{Name: rest, Pkg: pkg, Guarded: map[string][]string{}}
				cs.Types[fkey(pkg, rest)] = curT
			case "spec":
				sd, err := parseSpecDef(rest, l.line)
				if err != nil {
					return fmt.Errorf("%s:%d: %v", path, l.line, err)
				}
				cs.Specs[fkey(pkg, sd.Name)] = sd
			case "lemma":
				// lemma name(params) : expr
				i := strings.Index(rest, ":")
				if i < 0 {
					return fmt.Errorf("%s:%d: lemma needs ':'", path, l.line)
				}
				head := strings.TrimSpace(rest[:i])
				hn, err := ParseHead(head)
				if err != nil {
					return fmt.Errorf("%s:%d: %v", path, l.line, err)
				}
				ld := &LemmaDef{Pkg: pkg}
				if hn.Kind == NCall {
					ld.Name = hn.Args[0].Name
					ld.Params = hn.Args[1:]
				} else {
					ld.Name = hn.Name
				}
				cl, err := mkClause(strings.TrimSpace(rest[i+1:]), path, l.line)
				if err != nil {
					return err
				}
				ld.Body = cl
				cs.Lemmas = append(cs.Lemmas, ld)
				curL = ld
			case "axiom", "assume":
				cs.Scan = append(cs.Scan, fmt.Sprintf("%s:%d: %s", path, l.line, l.text))
				return fmt.Errorf("%s:%d: axiom/assume are not accepted in contract files", path, l.line)
			default:
				return fmt.Errorf("%s:%d: unknown header %q", path, l.line, kw)
			}
			continue
		}
		if curL != nil {
			switch kw {
			case "serves":
				curL.Serves = append(curL.Serves, strings.Fields(rest)...)
			case "uses":
				curL.Uses = append(curL.Uses, strings.Fields(rest)...)
			default:
				return fmt.Errorf("%s:%d: unexpected %q in lemma", path, l.line, kw)
			}
			continue
		}
		if curT != nil {
			if kw == "guarded_by" {
				// guarded_by lock : f1 f2 Type.f3
				i := strings.Index(rest, ":")
				if i < 0 {
					return fmt.Errorf("%s:%d: guarded_by needs ':'", path, l.line)
				}
				mu := strings.TrimSpace(rest[:i])
				for _, f := range strings.Fields(strings.ReplaceAll(rest[i+1:], ",", " ")) {
					if !strings.Contains(f, ".") {
						f = curT.Name + "." + f
					}
					curT.Guarded[mu] = append(curT.Guarded[mu], f)
				}
				continue
			}
			if kw == "sent" {
				cl, err := mkClause(rest, path, l.line)
				if err != nil {
					return err
				}
				curT.Sent = cl
				continue
			}
			if kw == "callbacks" {
				curT.Callbacks = true
				cs.Scan = append(cs.Scan, fmt.Sprintf("application callbacks through interface %s are assumed not to call back into, or write, the objects of the repository (frame: nothing)", curT.Name))
				continue
			}
			if kw == "closed" {
				curT.Closed = true
				cs.Scan = append(cs.Scan, fmt.Sprintf("closed-world interface %s (calls through it write at most what its loaded implementations write)", curT.Name))
				continue
			}
			return fmt.Errorf("%s:%d: unexpected %q in type block", path, l.line, kw)
		}
		if curF == nil {
			return fmt.Errorf("%s:%d: clause outside a block", path, l.line)
		}
		switch kw {
		case "serves":
			curF.Serves = append(curF.Serves, strings.Fields(rest)...)
		case "requires":
			cl, err := mkClause(rest, path, l.line)
			if err != nil {
				return err
			}
			curF.Requires = append(curF.Requires, cl)
		case "ensures":
			// ensures label [afterloop N] : expr
			after := 0
			if m := regexp.MustCompile(`^(\w+)\s+afterloop\s+(\d+)\s*:\s*(.*)$`).FindStringSubmatch(rest); m != nil {
				n, _ := strconv.Atoi(m[2])
				after = n + 1
				rest = m[1] + ": " + m[3]
			}
			cl, err := mkClause(rest, path, l.line)
			if err != nil {
				return err
			}
			cl.AfterLoop = after
			curF.Ensures = append(curF.Ensures, cl)
		case "given":
			cl, err := mkClause(rest, path, l.line)
			if err != nil {
				return err
			}
			curF.Given = append(curF.Given, cl)
			cs.Scan = append(cs.Scan, fmt.Sprintf("fact assumed on entry of %s (not demanded of callers): %s", curF.Name, cl.Text))
		case "assumes":
			// a postcondition the callers may use that is NOT checked against the body
			cl, err := mkClause(rest, path, l.line)
			if err != nil {
				return err
			}
			curF.Assumed = append(curF.Assumed, cl)
			cs.Scan = append(cs.Scan, fmt.Sprintf("assumed postcondition of %s (not checked against its body): %s", curF.Name, cl.Text))
		case "let":
			i := strings.Index(rest, "=")
			if i < 0 {
				return fmt.Errorf("%s:%d: let needs '='", path, l.line)
			}
			body, err := ParseSpec(strings.TrimSpace(rest[i+1:]))
			if err != nil {
				return fmt.Errorf("%s:%d: %v", path, l.line, err)
			}
			curF.Lets = append(curF.Lets, &SpecDef{Name: strings.TrimSpace(rest[:i]), Body: body, Line: l.line})
		case "loop":
			// loop N invariant expr | loop N decreases expr
			if len(fields) < 4 {
				return fmt.Errorf("%s:%d: malformed loop clause", path, l.line)
			}
			n, err := strconv.Atoi(fields[1])
			if fields[1] == "*" {
				n, err = -1, nil // every loop without a specification of its own
			}
			if err != nil {
				return fmt.Errorf("%s:%d: loop ordinal: %v", path, l.line, err)
			}
			what := fields[2]
			txt := strings.TrimSpace(l.text[strings.Index(l.text, what)+len(what):])
			cl, err := mkClause(txt, path, l.line)
			if err != nil {
				return err
			}
			ls := curF.Loops[n]
			if ls == nil {
				ls = &LoopSpec{}
				curF.Loops[n] = ls
			}
			switch what {
			case "invariant":
				ls.Invariants = append(ls.Invariants, cl)
			case "decreases":
				ls.Decreases = cl
			default:
				return fmt.Errorf("%s:%d: loop %s?", path, l.line, what)
			}
		case "assert":
			// assert label at <site words> : expr
			m := regexp.MustCompile(`^(\S+)\s+at\s+(.+?)\s+:\s+(.*)$`).FindStringSubmatch(rest)
			if m == nil {
				return fmt.Errorf("%s:%d: malformed assert clause", path, l.line)
			}
			cl, err := mkClause(m[3], path, l.line)
			if err != nil {
				return err
			}
			cl.Label = m[1]
			site, anySites := m[2], false
			if strings.HasSuffix(site, " ifany") {
				// "… at store F ifany": an invariant about every such site, also when there is none (yet)
				site, anySites = strings.TrimSuffix(site, " ifany"), true
			}
			curF.Asserts = append(curF.Asserts, &AssertSpec{Label: m[1], Site: site, Cl: cl, IfAny: anySites})
		case "split":
			// split <label> : <expr> <lo> <hi>
			m := regexp.MustCompile(`^(\S+)\s*:\s*(.+)\s+(-?\d+)\s+(-?\d+)$`).FindStringSubmatch(rest)
			if m == nil {
				return fmt.Errorf("%s:%d: malformed split clause", path, l.line)
			}
			ex, err := ParseSpec(m[2])
			if err != nil {
				return fmt.Errorf("%s:%d: %v", path, l.line, err)
			}
			lo, _ := strconv.Atoi(m[3])
			hi, _ := strconv.Atoi(m[4])
			curF.Splits[m[1]] = &SplitSpec{Expr: ex, Lo: lo, Hi: hi}
		case "safety":
			// safety [C20] index nil … : the generated safety obligations serve only the listed properties
			for _, k := range strings.Fields(rest) {
				if strings.HasPrefix(k, "[") || strings.HasSuffix(k, "]") {
					curF.SafetyProps = append(curF.SafetyProps, strings.Trim(k, "[]"))
					continue
				}
				curF.Safety[k] = true
			}
		case "inline":
			curF.Inline = true
		case "pure":
			curF.Pure = true
		case "trusted":
			curF.Trusted = true
			cs.Scan = append(cs.Scan, fmt.Sprintf("%s:%d: trusted contract for %s", path, l.line, curF.Name))
		case "atomic":
			curF.Atomic = rest
		case "opt":
			kv := strings.SplitN(rest, "=", 2)
			if len(kv) == 2 {
				curF.Opts[strings.TrimSpace(kv[0])] = strings.TrimSpace(kv[1])
				if strings.TrimSpace(kv[0]) == "frame" {
					cs.Scan = append(cs.Scan, fmt.Sprintf("assumed frame of %s: %s (of the program heap it writes only objects it allocates)", curF.Name, strings.TrimSpace(kv[1])))
				}
			}
		default:
			return fmt.Errorf("%s:%d: unknown clause %q", path, l.line, kw)
		}
	}
	return nil
}

func mkClause(text, file string, line int) (*Clause, error) {
	cl := &Clause{Text: text, Line: line, File: file}
	if m := propTagRe.FindStringSubmatch(text); m != nil {
		cl.Props = strings.Fields(strings.ReplaceAll(m[1], ",", " "))
		text = m[2]
	}
	if m := groupRe.FindStringSubmatch(text); m != nil {
		cl.Group = m[1]
		text = m[2]
	}
	if m := labelRe.FindStringSubmatch(text); m != nil && !strings.Contains(m[1], "(") {
		cl.Label = m[1]
		text = m[2]
	}
	for {
		m := propTagRe.FindStringSubmatch(text)
		if m == nil {
			break
		}
		cl.Props = append(cl.Props, strings.Fields(strings.ReplaceAll(m[1], ",", " "))...)
		text = m[2]
	}
	var kept []string
	for _, p := range cl.Props {
		if p == "only" {
			cl.Only = true
			continue
		}
		kept = append(kept, p)
	}
	cl.Props = kept
	e, err := ParseSpec(text)
	if err != nil {
		return nil, fmt.Errorf("%s:%d: %v", file, line, err)
	}
	cl.Expr = e
	cl.Text = text
	return cl, nil
}

func parseSpecDef(rest string, line int) (*SpecDef, error) {
	i := strings.Index(rest, "=")
	// careful: "==" inside; find first '=' not followed/preceded by '=' '<' '>' '!'
	for i >= 0 {
		if i+1 < len(rest) && rest[i+1] == '=' {
			j := strings.Index(rest[i+2:], "=")
			if j < 0 {
				i = -1
				break
			}
			i = i + 2 + j
			continue
		}
		if i > 0 && strings.ContainsRune("<>!=", rune(rest[i-1])) {
			j := strings.Index(rest[i+1:], "=")
			if j < 0 {
				i = -1
				break
			}
			i = i + 1 + j
			continue
		}
		break
	}
	if i < 0 {
		return nil, fmt.Errorf("spec needs '='")
	}
	head, err := ParseSpec(strings.TrimSpace(rest[:i]))
	if err != nil {
		return nil, err
	}
	body, err := ParseSpec(strings.TrimSpace(rest[i+1:]))
	if err != nil {
		return nil, err
	}
	sd := &SpecDef{Body: body, Line: line, Text: rest}
	switch head.Kind {
	case NIdent:
		sd.Name = head.Name
	case NCall:
		sd.Name = head.Args[0].Name
		for _, a := range head.Args[1:] {
			if a.Kind == NTypeDecl || a.Kind == NIdent {
				sd.Params = append(sd.Params, a.Name)
			} else {
				return nil, fmt.Errorf("bad spec parameter %s", a)
			}
		}
	default:
		return nil, fmt.Errorf("bad spec head")
	}
	return sd, nil
}
