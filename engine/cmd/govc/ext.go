package main

// Assumed contracts ("models") for code outside /repo. This table IS the trusted base for
// dependencies; every entry used by a run is echoed into the evidence file.

import (
	"sort"
	"fmt"
	"go/types"
	"strings"

	"golang.org/x/tools/go/ssa"
)

type extModel struct {
	name  string
	doc   string
	mods  func(ms *ModSet, c *ssa.CallCommon)
	apply func(fr *Frame, st *State, c *ssa.CallCommon, args []Val, res ssa.Value) Val
	// targets: the pointers through which the call writes modelled heap cells (nil = unknown)
	targets func(c *ssa.CallCommon) []ssa.Value
}

func noMods(ms *ModSet, c *ssa.CallCommon) {}

var extModels = map[string]*extModel{}
var extInvokes = map[string]*extModel{}
var extPrefix []*extModel // matched by name prefix

func reg(name, doc string, mods func(*ModSet, *ssa.CallCommon), apply func(fr *Frame, st *State, c *ssa.CallCommon, args []Val, res ssa.Value) Val) {
	if mods == nil {
		mods = noMods
	}
	extModels[name] = &extModel{name: name, doc: doc, mods: mods, apply: apply}
}

func regInvoke(name, doc string, mods func(*ModSet, *ssa.CallCommon), apply func(fr *Frame, st *State, c *ssa.CallCommon, args []Val, res ssa.Value) Val) {
	if mods == nil {
		mods = noMods
	}
	extInvokes[name] = &extModel{name: "invoke " + name, doc: doc, mods: mods, apply: apply}
}

func regPrefix(prefix, doc string, apply func(fr *Frame, st *State, c *ssa.CallCommon, args []Val, res ssa.Value) Val) {
	extPrefix = append(extPrefix, &extModel{name: prefix + "*", doc: doc, mods: noMods, apply: apply})
}

func (e *Engine) extModel(f *ssa.Function) *extModel {
	n := f.String()
	if m, ok := extModels[n]; ok {
		return m
	}
	for _, m := range extPrefix {
		if strings.HasPrefix(n, strings.TrimSuffix(m.name, "*")) {
			return m
		}
	}
	return lookupCodec(f)
}

func (e *Engine) extInvoke(c *ssa.CallCommon) *extModel {
	n := types.TypeString(c.Value.Type(), nil) + "." + c.Method.Name()
	if m, ok := extInvokes[n]; ok {
		return m
	}
	if n == "hash.Hash.Write" {
		return extInvokes["io.Writer.Write"] // hash.Hash embeds io.Writer
	}
	return nil
}

// pureOpaque: the call has no effect on modelled state; its result is unconstrained.
func pureOpaque(fr *Frame, st *State, c *ssa.CallCommon, args []Val, res ssa.Value) Val {
	return fr.freshResult(st, c, res)
}

// pureUF: result is an uninterpreted function of the (value) arguments.
func pureUF(name string) func(fr *Frame, st *State, c *ssa.CallCommon, args []Val, res ssa.Value) Val {
	return func(fr *Frame, st *State, c *ssa.CallCommon, args []Val, res ssa.Value) Val {
		v := fr.v
		var ts, sorts []string
		off := 0
		if c.IsInvoke() {
			ts = append(ts, args[0].T)
			sorts = append(sorts, v.smt.sortOf(c.Value.Type()))
			off = 1
		}
		for i, a := range c.Args {
			val := args[i+off]
			at := a.Type()
			if p, ok := at.Underlying().(*types.Pointer); ok && !isRefStruct(p.Elem()) {
				// pass pointee value
				ts = append(ts, v.loadPtr(st, val, p.Elem()))
				sorts = append(sorts, v.smt.sortOf(p.Elem()))
				continue
			}
			if val.Loc != nil {
				ts = append(ts, v.loadLoc(st, val.Loc))
				sorts = append(sorts, v.smt.sortOf(deref(at)))
				continue
			}
			ts = append(ts, val.T)
			sorts = append(sorts, v.smt.sortOf(at))
		}
		rs := c.Signature().Results()
		if rs.Len() != 1 {
			v.unsupported("pureUF %s with %d results", name, rs.Len())
		}
		f := v.smt.declareFun(name, sorts, v.smt.sortOf(rs.At(0).Type()))
		t := app(f, ts...)
		if res == nil {
			return Val{}
		}
		fr.defVal(res, t)
		v.smt.assert(v.closedFactNoAlloc(fr.vals[res].T, rs.At(0).Type()))
		return fr.vals[res]
	}
}

// pureUFErr: (value, error) result; when the error is nil the value is an uninterpreted function
// of the (value) arguments.
func pureUFErr(name string) func(fr *Frame, st *State, c *ssa.CallCommon, args []Val, res ssa.Value) Val {
	return func(fr *Frame, st *State, c *ssa.CallCommon, args []Val, res ssa.Value) Val {
		v := fr.v
		var ts, sorts []string
		for i, a := range c.Args {
			val := args[i]
			at := a.Type()
			if p, ok := at.Underlying().(*types.Pointer); ok && !isRefStruct(p.Elem()) {
				ts = append(ts, v.loadPtr(st, val, p.Elem()))
				sorts = append(sorts, v.smt.sortOf(p.Elem()))
				continue
			}
			if val.Loc != nil {
				ts = append(ts, v.loadLoc(st, val.Loc))
				sorts = append(sorts, v.smt.sortOf(deref(at)))
				continue
			}
			ts = append(ts, val.T)
			sorts = append(sorts, v.smt.sortOf(at))
		}
		rs := c.Signature().Results()
		if rs.Len() != 2 {
			v.unsupported("pureUFErr %s with %d results", name, rs.Len())
		}
		out := fr.freshResult(st, c, res)
		if res == nil {
			return out
		}
		f := v.smt.declareFun(name, sorts, v.smt.sortOf(rs.At(0).Type()))
		v.smt.assert(implies(eq(out.Tuple[1].T, "(mk-iface 0 0)"), eq(out.Tuple[0].T, app(f, ts...))))
		return out
	}
}

func (v *FnVerifier) closedFactNoAlloc(x string, t types.Type) string {
	if b, ok := t.Underlying().(*types.Basic); ok {
		return intRange(x, b)
	}
	return "true"
}

func (e *Engine) lookupType(pkg, name string) types.Type {
	for _, p := range e.allPkgs {
		if p.PkgPath == pkg {
			if o := p.Types.Scope().Lookup(name); o != nil {
				return o.Type()
			}
		}
	}
	panic("lookupType: " + pkg + "." + name + " not loaded")
}

// derefArg returns the pointee value term and the "is nil" term of a pointer argument.
func (fr *Frame) derefArg(st *State, a Val, pointee types.Type) (val string, isNil string) {
	if a.Loc != nil {
		return fr.v.loadLoc(st, a.Loc), "false"
	}
	return fr.v.loadPtr(st, a, pointee), "(= " + a.T + " 0)"
}

func init() {
	// ---- sync ----
	lockMods := func(ms *ModSet, c *ssa.CallCommon) {
		ms.add(KeyInfo{Key: "GH!locks", Ghost: "Int"})
		// the held bit of this mutex field (callers reason about it through held())
		if c != nil && len(c.Args) > 0 {
			if fa, ok := c.Args[0].(*ssa.FieldAddr); ok {
				bt := deref(fa.X.Type())
				if _, st := namedStruct(bt); st != nil && isRefStruct(bt) {
					ms.add(KeyInfo{Key: "GH!held!" + fieldKeyName(bt, st, fa.Field), Ghost: "(Array Int Bool)"})
				}
			}
		}
	}
	reg("(*sync.Mutex).Lock", "ghost held-bit set; M: not already held", lockMods, func(fr *Frame, st *State, c *ssa.CallCommon, args []Val, res ssa.Value) Val {
		fr.lockOp(st, args[0], true, c)
		return Val{}
	})
	reg("(*sync.Mutex).Unlock", "ghost held-bit cleared; M: held", lockMods, func(fr *Frame, st *State, c *ssa.CallCommon, args []Val, res ssa.Value) Val {
		fr.lockOp(st, args[0], false, c)
		return Val{}
	})
	reg("(*sync.RWMutex).Lock", "as Mutex", lockMods, extModels["(*sync.Mutex).Lock"].apply)
	reg("(*sync.RWMutex).Unlock", "as Mutex", lockMods, extModels["(*sync.Mutex).Unlock"].apply)
	reg("(*sync.RWMutex).RLock", "as Mutex (read lock treated as exclusive)", lockMods, extModels["(*sync.Mutex).Lock"].apply)
	reg("(*sync.RWMutex).RUnlock", "as Mutex", lockMods, extModels["(*sync.Mutex).Unlock"].apply)

	// ---- logging / metrics: pure, opaque results ----
	for _, p := range []string{"github.com/tokenized/logger.", "github.com/tokenized/metrics.", "(*github.com/tokenized/logger.", "(github.com/tokenized/logger.",
		"fmt.Sprintf", "fmt.Errorf", "fmt.Sprint", "fmt.Println", "fmt.Printf", "fmt.Fprintf"} {
		regPrefix(p, "no effect on modelled state; result opaque", pureOpaqueNonNilErr)
	}
	reg("github.com/pkg/errors.New", "fresh non-nil error", nil, nonNilError)
	reg("errors.New", "fresh non-nil error", nil, nonNilError)
	reg("github.com/pkg/errors.Errorf", "fresh non-nil error", nil, nonNilError)
	wrap := func(fr *Frame, st *State, c *ssa.CallCommon, args []Val, res ssa.Value) Val {
		v := fr.v
		out := fr.freshResult(st, c, res)
		in := args[0].T
		cause := v.smt.declareFun("uf!errCause", []string{"Iface"}, "Iface")
		v.smt.assert(eq(eq(out.T, "(mk-iface 0 0)"), eq(in, "(mk-iface 0 0)")))
		v.smt.assert(eq(app(cause, out.T), app(cause, in)))
		return out
	}
	reg("github.com/pkg/errors.Wrap", "nil iff argument nil; Cause preserved", nil, wrap)
	reg("github.com/pkg/errors.Wrapf", "nil iff argument nil; Cause preserved", nil, wrap)
	reg("github.com/pkg/errors.WithStack", "nil iff argument nil; Cause preserved", nil, wrap)
	reg("github.com/pkg/errors.Cause", "uninterpreted idempotent Cause; Cause(nil)=nil; sentinels are their own cause", nil,
		func(fr *Frame, st *State, c *ssa.CallCommon, args []Val, res ssa.Value) Val {
			v := fr.v
			cause := v.smt.declareFun("uf!errCause", []string{"Iface"}, "Iface")
			v.smt.axiom(eq(app(cause, "(mk-iface 0 0)"), "(mk-iface 0 0)"))
			fr.defVal(res, app(cause, args[0].T))
			out := fr.vals[res]
			v.smt.assert(eq(app(cause, out.T), out.T))
			v.smt.assert(eq(eq(out.T, "(mk-iface 0 0)"), eq(args[0].T, "(mk-iface 0 0)")))
			return out
		})

	// ---- time ----
	reg("time.Now", "returns a time >= every earlier Now in this call (clock_monotone); UnixNano uninterpreted", func(ms *ModSet, c *ssa.CallCommon) {
		ms.add(KeyInfo{Key: "GH!clock", Ghost: "Int"})
	}, func(fr *Frame, st *State, c *ssa.CallCommon, args []Val, res ssa.Value) Val {
		v := fr.v
		out := fr.freshResult(st, c, res)
		ck := v.ghostKey("clock", "Int")
		nano := v.smt.declareFun("uf!UnixNano", []string{v.smt.sortOf(c.Signature().Results().At(0).Type())}, "Int")
		v.smt.assert("(>= " + app(nano, out.T) + " " + v.heap(st, ck) + ")")
		v.setHeap(st, ck, app(nano, out.T))
		return out
	})
	reg("time.Since", "Now - t in integer nanoseconds", func(ms *ModSet, c *ssa.CallCommon) {
		ms.add(KeyInfo{Key: "GH!clock", Ghost: "Int"})
	}, func(fr *Frame, st *State, c *ssa.CallCommon, args []Val, res ssa.Value) Val {
		v := fr.v
		ck := v.ghostKey("clock", "Int")
		now := v.smt.fresh("now", "Int")
		v.smt.assert("(>= " + now + " " + v.heap(st, ck) + ")")
		v.setHeap(st, ck, now)
		nano := v.smt.declareFun("uf!UnixNano", []string{v.smt.sortOf(c.Args[0].Type())}, "Int")
		fr.defVal(res, "(- "+now+" "+app(nano, fr.term(st, c.Args[0]))+")")
		fr.v.lastNow = now
		return fr.vals[res]
	})
	reg("(time.Time).Sub", "difference of UnixNano", nil, func(fr *Frame, st *State, c *ssa.CallCommon, args []Val, res ssa.Value) Val {
		v := fr.v
		nano := v.smt.declareFun("uf!UnixNano", []string{v.smt.sortOf(c.Args[0].Type())}, "Int")
		fr.defVal(res, "(- "+app(nano, fr.term(st, c.Args[0]))+" "+app(nano, fr.term(st, c.Args[1]))+")")
		return fr.vals[res]
	})
	reg("(time.Time).Before", "UnixNano order", nil, func(fr *Frame, st *State, c *ssa.CallCommon, args []Val, res ssa.Value) Val {
		v := fr.v
		nano := v.smt.declareFun("uf!UnixNano", []string{v.smt.sortOf(c.Args[0].Type())}, "Int")
		fr.defVal(res, "(< "+app(nano, fr.term(st, c.Args[0]))+" "+app(nano, fr.term(st, c.Args[1]))+")")
		return fr.vals[res]
	})
	reg("(time.Time).After", "UnixNano order", nil, func(fr *Frame, st *State, c *ssa.CallCommon, args []Val, res ssa.Value) Val {
		v := fr.v
		nano := v.smt.declareFun("uf!UnixNano", []string{v.smt.sortOf(c.Args[0].Type())}, "Int")
		fr.defVal(res, "(> "+app(nano, fr.term(st, c.Args[0]))+" "+app(nano, fr.term(st, c.Args[1]))+")")
		return fr.vals[res]
	})
	reg("(time.Time).UnixNano", "uninterpreted UnixNano", nil, pureUF("uf!UnixNano"))
	reg("(time.Time).Unix", "uninterpreted Unix seconds", nil, pureUF("uf!UnixSec"))
	reg("(time.Duration).Seconds", "float seconds: modelled as Real = ns / 1e9", nil, func(fr *Frame, st *State, c *ssa.CallCommon, args []Val, res ssa.Value) Val {
		fr.defVal(res, "(/ (to_real "+fr.term(st, c.Args[0])+") 1000000000.0)")
		return fr.vals[res]
	})
	reg("(time.Time).Add", "UnixNano(t.Add(d)) = UnixNano(t)+d", nil, func(fr *Frame, st *State, c *ssa.CallCommon, args []Val, res ssa.Value) Val {
		v := fr.v
		out := fr.freshResult(st, c, res)
		nano := v.smt.declareFun("uf!UnixNano", []string{v.smt.sortOf(c.Args[0].Type())}, "Int")
		v.smt.assert(eq(app(nano, out.T), "(+ "+app(nano, fr.term(st, c.Args[0]))+" "+fr.term(st, c.Args[1])+")"))
		return out
	})
	reg("time.Unix", "UnixNano(Unix(s,n)) = s*1e9+n", nil, func(fr *Frame, st *State, c *ssa.CallCommon, args []Val, res ssa.Value) Val {
		v := fr.v
		out := fr.freshResult(st, c, res)
		nano := v.smt.declareFun("uf!UnixNano", []string{v.smt.sortOf(c.Signature().Results().At(0).Type())}, "Int")
		v.smt.assert(eq(app(nano, out.T), "(+ (* "+fr.term(st, c.Args[0])+" 1000000000) "+fr.term(st, c.Args[1])+")"))
		return out
	})

	// ---- bitcoin.Hash32 / Hash20 ----
	hashEqual := func(fr *Frame, st *State, c *ssa.CallCommon, args []Val, res ssa.Value) Val {
		pt := deref(c.Args[0].Type())
		a, an := fr.derefArg(st, args[0], pt)
		b, bn := fr.derefArg(st, args[1], pt)
		fr.defVal(res, ite(an, bn, and(not(bn), eq(a, b))))
		return fr.vals[res]
	}
	reg("(*github.com/tokenized/pkg/bitcoin.Hash32).Equal", "a==nil ? b==nil : (b!=nil && *a==*b)", nil, hashEqual)
	reg("(*github.com/tokenized/pkg/bitcoin.Hash20).Equal", "a==nil ? b==nil : (b!=nil && *a==*b)", nil, hashEqual)
	reg("(github.com/tokenized/pkg/bitcoin.Hash32).String", "opaque string of the hash", nil, pureUF("uf!Hash32String"))
	reg("(*github.com/tokenized/pkg/bitcoin.Hash32).String", "opaque string of the hash", nil, pureOpaque)
	reg("(github.com/tokenized/pkg/bitcoin.Hash32).Copy", "copy of the value", nil, func(fr *Frame, st *State, c *ssa.CallCommon, args []Val, res ssa.Value) Val {
		fr.defVal(res, fr.term(st, c.Args[0]))
		return fr.vals[res]
	})

	// ---- wire ----
	regInvoke("github.com/tokenized/pkg/wire.Block.SerializeSize", "uninterpreted size of the block, constant per block value", nil, pureUF("uf!SerializeSize"))
	regInvoke("github.com/tokenized/pkg/wire.Block.GetHeader", "uninterpreted header of the block value", nil, pureUF("uf!BlockGetHeader"))
	reg("(*github.com/tokenized/pkg/wire.BlockHeader).BlockHash", "BlockHash: uninterpreted function of the header value; result boxed", func(ms *ModSet, c *ssa.CallCommon) {
		if c != nil {
			ki := kiBox(deref(c.Signature().Results().At(0).Type()))
			ki.FreshOnly = true // the result is a new box
			ms.add(ki)
		}
	}, func(fr *Frame, st *State, c *ssa.CallCommon, args []Val, res ssa.Value) Val {
		v := fr.v
		ht := deref(c.Args[0].Type())
		hv := v.loadPtr(st, args[0], ht)
		rt := deref(c.Signature().Results().At(0).Type())
		f := v.smt.declareFun("uf!BlockHash", []string{v.smt.sortOf(ht)}, v.smt.sortOf(rt))
		r := v.newRef(st, "blockhash")
		v.storePtr(st, Val{T: r}, rt, app(f, hv))
		fr.vals[res] = Val{T: r}
		return fr.vals[res]
	})
	reg("(*github.com/tokenized/pkg/wire.MsgTx).TxHash", "TxHash: uninterpreted function of the tx object identity+content (by reference); result boxed", func(ms *ModSet, c *ssa.CallCommon) {
		if c != nil {
			ki := kiBox(deref(c.Signature().Results().At(0).Type()))
			ki.FreshOnly = true // the result is a new box
			ms.add(ki)
		}
	}, func(fr *Frame, st *State, c *ssa.CallCommon, args []Val, res ssa.Value) Val {
		v := fr.v
		rt := deref(c.Signature().Results().At(0).Type())
		f := v.smt.declareFun("uf!TxHashOf", []string{"Int"}, v.smt.sortOf(rt))
		r := v.newRef(st, "txhash")
		v.storePtr(st, Val{T: r}, rt, app(f, fr.term(st, c.Args[0])))
		v.smt.note("TxHash(tx) is a function of the *MsgTx reference (transactions are not mutated after construction)")
		fr.vals[res] = Val{T: r}
		return fr.vals[res]
	})
	reg("(github.com/tokenized/pkg/wire.OutPoint).OutpointHash", "uninterpreted function of the outpoint value; result in a fresh box", boxMods, boxedUF("uf!OutpointHash"))
	reg("(*github.com/tokenized/pkg/wire.OutPoint).OutpointHash", "uninterpreted function of the outpoint value; result in a fresh box", boxMods, boxedUF("uf!OutpointHash"))
}

func boxMods(ms *ModSet, c *ssa.CallCommon) {
	if c != nil {
		ki := kiBox(deref(c.Signature().Results().At(0).Type()))
		ki.FreshOnly = true
		ms.add(ki)
	}
}

// boxedUF: returns a pointer to a fresh box holding UF(pointee values of the arguments).
func boxedUF(name string) func(fr *Frame, st *State, c *ssa.CallCommon, args []Val, res ssa.Value) Val {
	return func(fr *Frame, st *State, c *ssa.CallCommon, args []Val, res ssa.Value) Val {
		v := fr.v
		var ts, sorts []string
		for i, a := range c.Args {
			at := a.Type()
			if p, ok := at.Underlying().(*types.Pointer); ok && !isRefStruct(p.Elem()) || ok && args[i].Loc != nil {
				ts = append(ts, v.loadPtr(st, args[i], p.Elem()))
				sorts = append(sorts, v.smt.sortOf(p.Elem()))
				continue
			} else if ok && isRefStruct(p.Elem()) {
				ts = append(ts, v.loadPtr(st, args[i], p.Elem()))
				sorts = append(sorts, v.smt.sortOf(p.Elem()))
				continue
			}
			ts = append(ts, fr.term(st, a))
			sorts = append(sorts, v.smt.sortOf(at))
		}
		rt := deref(c.Signature().Results().At(0).Type())
		f := v.smt.declareFun(name, sorts, v.smt.sortOf(rt))
		r := v.newRef(st, "uf")
		v.storePtr(st, Val{T: r}, rt, app(f, ts...))
		if res != nil {
			fr.vals[res] = Val{T: r}
		}
		return Val{T: r}
	}
}

func init() {
	for _, n := range []string{"github.com/tokenized/pkg/storage.Searcher.Search", "github.com/tokenized/pkg/storage.Storage.Search"} {
		regInvoke(n, "storage back end: returns a list of stored blobs (count and sizes <= input budget) or an error", nil, func(fr *Frame, st *State, c *ssa.CallCommon, args []Val, res ssa.Value) Val {
			out := fr.freshResult(st, c, res)
			v := fr.v
			v.smt.assert("(<= (s.len " + out.Tuple[0].T + ") " + v.heap(st, v.ghostKey("inputBudget", "Int")) + ")")
			return out
		})
	}
	for _, n := range []string{
		"github.com/tokenized/pkg/storage.Storage.List", "github.com/tokenized/pkg/storage.Lister.List", "github.com/tokenized/pkg/storage.Storage.Clear"} {
		regInvoke(n, "storage back end: no effect on the modelled heap; result unconstrained", nil, pureOpaque)
	}
	reg("github.com/tokenized/pkg/bitcoin.NewHash32", "error iff len(b) != 32; otherwise a fresh hash", func(ms *ModSet, c *ssa.CallCommon) {
		if c != nil {
			ki := kiBox(deref(c.Signature().Results().At(0).Type()))
			ki.FreshOnly = true
			ms.add(ki)
		}
	}, func(fr *Frame, st *State, c *ssa.CallCommon, args []Val, res ssa.Value) Val {
		v := fr.v
		b := fr.term(st, c.Args[0])
		rt := deref(c.Signature().Results().At(0).Type())
		r := v.newRef(st, "newhash")
		hf := v.smt.declareFun("uf!hash32Of", []string{"(Array Int Int)", "Int"}, v.smt.sortOf(rt))
		hv := v.smt.define("newhash.v", v.smt.sortOf(rt), app(hf, sel(v.heap(st, v.elemKey(types.Typ[types.Uint8])), "(s.arr "+b+")"), "(s.off "+b+")"))
		v.storePtr(st, Val{T: r}, rt, hv)
		errT := v.smt.fresh("newhash.err", "Iface")
		v.smt.assert(v.closedFact(errT, types.Universe.Lookup("error").Type(), v.alloc(st), 0))
		v.smt.assert(eq(eq(errT, "(mk-iface 0 0)"), eq("(s.len "+b+")", "32")))
		ptr := v.smt.define("newhash.p", "Int", ite(eq(errT, "(mk-iface 0 0)"), r, "0"))
		out := Val{Tuple: []Val{{T: ptr}, {T: errT}}}
		fr.setResult(res, out)
		return out
	})
}

func init() {
	reg("(github.com/tokenized/pkg/bitcoin.PublicKey).Equal", "uninterpreted equality predicate on public keys", nil, pureUF("uf!PublicKeyEqual"))
	reg("(github.com/tokenized/pkg/bitcoin.Signature).Verify", "uninterpreted: Verify(sig, hash, key)", nil, pureUF("uf!SigVerify"))
	reg("(*github.com/tokenized/pkg/bitcoin.Signature).Verify", "uninterpreted: Verify(sig, hash, key)", nil, pureUF("uf!SigVerify"))
	reg("time.After", "a channel (opaque)", nil, pureOpaque)
	reg("time.Sleep", "no effect on the modelled state", nil, pureOpaque)
	reg("math/rand.Uint64", "an unconstrained number; writes nothing in the modelled heap", nil, pureOpaque)
	reg("(time.Duration).Nanoseconds", "pure", nil, pureUF("uf!durationNanos"))
	// merkle validity of a block message: one uninterpreted predicate over the block value, whichever way it is called
	blockValid := func(fr *Frame, st *State, c *ssa.CallCommon, args []Val, res ssa.Value) Val {
		v := fr.v
		f := v.smt.declareFun("uf!BlockMerkleValid", []string{"Iface"}, "Bool")
		var x string
		if c.IsInvoke() {
			x = args[0].T
		} else {
			x = fmt.Sprintf("(mk-iface %d %s)", v.typeTag(c.Args[0].Type()), args[0].T)
		}
		out := Val{T: app(f, x)}
		fr.setResult(res, out)
		return out
	}
	reg("(*github.com/tokenized/pkg/wire.MsgParseBlock).IsMerkleRootValid", "uninterpreted predicate BlockMerkleValid(block): the block's transactions hash to its header's merkle root", nil, blockValid)
	reg("(*github.com/tokenized/pkg/wire.MsgBlock).IsMerkleRootValid", "uninterpreted predicate BlockMerkleValid(block)", nil, blockValid)
	regInvoke("github.com/tokenized/pkg/wire.Block.IsMerkleRootValid", "uninterpreted predicate BlockMerkleValid(block)", nil, blockValid)
	reg("(*net.Dialer).DialContext", "network: returns an unconstrained (connection, error); writes nothing in the modelled heap", nil, pureOpaque)
	regInvoke("net.Conn.Close", "network: unconstrained error; writes nothing in the modelled heap", nil, pureOpaque)
	reg("github.com/tokenized/pkg/bitcoin.NextPublicKey", "when it succeeds: an uninterpreted function NextPublicKey(base, hash)", nil, pureUFErr("uf!NextPublicKey"))
	reg("github.com/tokenized/pkg/bitcoin.NextKey", "when it succeeds: an uninterpreted function NextKey(base, hash)", nil, pureUFErr("uf!NextKey"))
	reg("(github.com/tokenized/pkg/bitcoin.Key).Sign", "when it succeeds: an uninterpreted function Sign(key, hash)", nil, pureUFErr("uf!SignOf"))
	reg("(github.com/tokenized/pkg/bitcoin.Key).PublicKey", "an uninterpreted function PublicKey(key)", nil, pureUF("uf!PublicKeyOf"))
	reg("github.com/tokenized/pkg/bitcoin.GenerateSeedValue", "a new random value: Seed(n) for the n-th value generated (ghost counter nseed)",
		func(ms *ModSet, c *ssa.CallCommon) { ms.add(KeyInfo{Key: "GH!nseed", Ghost: "Int"}) },
		func(fr *Frame, st *State, c *ssa.CallCommon, args []Val, res ssa.Value) Val {
			v := fr.v
			k := v.ghostKey("nseed", "Int")
			n := v.heap(st, k)
			out := fr.freshResult(st, c, res)
			v.setHeap(st, k, "(+ 1 "+n+")")
			if res != nil {
				f := v.smt.declareFun("uf!SeedAt", []string{"Int"}, v.smt.sortOf(c.Signature().Results().At(0).Type()))
				v.smt.assert(implies(eq(out.Tuple[1].T, "(mk-iface 0 0)"), eq(out.Tuple[0].T, app(f, n))))
			}
			return out
		})
	regInvoke("github.com/tokenized/spynode/pkg/client.MessagePayload.Type", "pure: type code of the payload's dynamic type (uninterpreted function of the value); for every payload type whose Type method is `return <constant>` the constant is read from the method body", nil,
		func(fr *Frame, st *State, c *ssa.CallCommon, args []Val, res ssa.Value) Val {
			fr.v.payloadTypeAxioms()
			return pureUF("uf!PayloadType")(fr, st, c, args, res)
		})
}

// payloadTypeAxioms: for each type of package client whose method Type() uint64 consists of
// `return <constant>`, PayloadType(x) == constant for every interface value x holding that type.
func (v *FnVerifier) payloadTypeAxioms() {
	if v.payloadAx {
		return
	}
	v.payloadAx = true
	pkg := v.eng.spkgs[pkgClient]
	if pkg == nil {
		return
	}
	f := v.smt.declareFun("uf!PayloadType", []string{"Iface"}, "Int")
	var names []string
	for n := range pkg.Members {
		names = append(names, n)
	}
	sort.Strings(names)
	for _, n := range names {
		tn, ok := pkg.Members[n].(*ssa.Type)
		if !ok {
			continue
		}
		for _, t := range []types.Type{tn.Type(), types.NewPointer(tn.Type())} {
			ms := v.eng.prog.MethodSets.MethodSet(t)
			sel := ms.Lookup(pkg.Pkg, "Type")
			if sel == nil {
				continue
			}
			fn := v.eng.prog.MethodValue(sel)
			if fn == nil {
				continue
			}
			// a pointer-receiver wrapper of a value method: look through to the declared method
			decl := fn
			if fn.Synthetic != "" {
				if o, ok := sel.Obj().(*types.Func); ok {
					decl = v.eng.prog.FuncValue(o)
				}
			}
			if decl == nil || len(decl.Blocks) != 1 {
				continue
			}
			var cst *ssa.Const
			for _, in := range decl.Blocks[0].Instrs {
				switch x := in.(type) {
				case *ssa.DebugRef:
				case *ssa.Return:
					if len(x.Results) == 1 {
						cst, _ = x.Results[0].(*ssa.Const)
					}
				default:
					cst = nil
					goto next
				}
			}
			if cst != nil && cst.Value != nil {
				v.smt.axiom(fmt.Sprintf("(forall ((x Iface)) (! (=> (= (i.tag x) %d) (= (%s x) %s)) :pattern ((%s x))))", v.typeTag(t), f, cst.Value.ExactString(), f))
			}
		next:
		}
	}
}

// atomic.Value: a ghost cell per (struct field, object).
func (v *FnVerifier) atomicKey(l *Loc) (string, bool) {
	if l == nil || len(l.idx) != 1 || len(l.path) != 0 {
		return "", false
	}
	return v.ghostKey("atomic!"+strings.TrimPrefix(l.key, "F!"), "(Array Int Iface)"), true
}

func init() {
	avMods := func(ms *ModSet, c *ssa.CallCommon) {
		if c != nil {
			if fa, ok := c.Args[0].(*ssa.FieldAddr); ok {
				bt := deref(fa.X.Type())
				if _, st := namedStruct(bt); st != nil {
					ms.add(KeyInfo{Key: "GH!atomic!" + strings.TrimPrefix(fieldKeyName(bt, st, fa.Field), "F!"), Ghost: "(Array Int Iface)"})
					return
				}
			}
		}
		ms.add(KeyInfo{Key: "GH!atomic!unknown", Ghost: "(Array Int Iface)"})
	}
	reg("(*sync/atomic.Value).Load", "atomic cell: returns the value last stored (a ghost cell per struct field and object)", nil, func(fr *Frame, st *State, c *ssa.CallCommon, args []Val, res ssa.Value) Val {
		v := fr.v
		k, ok := v.atomicKey(args[0].Loc)
		if !ok {
			return pureOpaque(fr, st, c, args, res)
		}
		fr.defVal(res, sel(v.heap(st, k), args[0].Loc.idx[0]))
		v.smt.assert(v.closedFact(fr.vals[res].T, c.Signature().Results().At(0).Type(), v.alloc(st), 0))
		return fr.vals[res]
	})
	reg("(*sync/atomic.Value).Store", "atomic cell: stores the value", avMods, func(fr *Frame, st *State, c *ssa.CallCommon, args []Val, res ssa.Value) Val {
		v := fr.v
		k, ok := v.atomicKey(args[0].Loc)
		if !ok {
			v.unsupported("atomic.Value.Store on something that is not a struct field")
		}
		v.setHeap(st, k, sto(v.heap(st, k), args[0].Loc.idx[0], fr.term(st, c.Args[1])))
		return Val{}
	})
}

func pureOpaqueNonNilErr(fr *Frame, st *State, c *ssa.CallCommon, args []Val, res ssa.Value) Val {
	out := fr.freshResult(st, c, res)
	f, _ := c.Value.(*ssa.Function)
	if f != nil && (f.Name() == "Errorf") {
		fr.v.smt.assert(not(eq(out.T, "(mk-iface 0 0)")))
	}
	return out
}

func nonNilError(fr *Frame, st *State, c *ssa.CallCommon, args []Val, res ssa.Value) Val {
	out := fr.freshResult(st, c, res)
	v := fr.v
	v.smt.assert(not(eq(out.T, "(mk-iface 0 0)")))
	v.smt.assert("(>= (i.val " + out.T + ") 0)") // a new error value is none of the package-level sentinels
	cause := v.smt.declareFun("uf!errCause", []string{"Iface"}, "Iface")
	v.smt.assert(eq(app(cause, out.T), out.T))
	return out
}

// lockOp implements the monitor rule's ghost lock bit.
func (fr *Frame) lockOp(st *State, m Val, lock bool, c *ssa.CallCommon) {
	v := fr.v
	if m.Loc == nil || len(m.Loc.idx) != 1 || len(m.Loc.path) != 0 {
		v.smt.note("lock on a mutex that is not a direct struct field: not tracked")
		return
	}
	hk := v.heldKey(m.Loc.key)
	obj := m.Loc.idx[0]
	h := v.heap(st, hk)
	cur := sel(h, obj)
	name := strings.TrimPrefix(m.Loc.key, "F!")
	v.siteCount["lock"]++
	if v.noMonitor() {
		v.setHeap(st, hk, sto(h, obj, fmt.Sprint(lock)))
		if !lock {
			st.relock[hk] = true
		}
		return
	}
	if lock {
		v.addObl(st, "monitor", fmt.Sprintf("lock.%s#%d", name, v.siteCount["lock"]), not(cur), "Lock() is called with the mutex not held by this call", nil, c.Pos())
		if st.relock[hk] {
			// guarded state may have been changed by other threads since the Unlock
			ms := newModSet()
			for key, g := range v.guards {
				if g == hk {
					ms.Keys[key] = v.guardInfo[key]
				}
			}
			v.havocKeys(st, ms)
			h = v.heap(st, hk)
		}
		v.setHeap(st, hk, sto(h, obj, "true"))
		if v.lockBase == nil && v.fc != nil && v.fc.Atomic != "" {
			v.lockBase = st.clone()
		}
	} else {
		v.addObl(st, "monitor", fmt.Sprintf("unlock.%s#%d", name, v.siteCount["lock"]), cur, "Unlock() is called with the mutex held", nil, c.Pos())
		v.setHeap(st, hk, sto(h, obj, "false"))
		st.relock[hk] = true
	}
}
