package main

import (
	"encoding/json"
	"fmt"
	"os"
	"path/filepath"
	"sort"
	"strings"
)

func writeEvidence(verif, prop, tier string, seed int, eng *Engine, units []*FnVerifier, obls []*Obligation, reps interface{},
	nDis, nCover, nKnown, nViol int, byBackend map[string]int, solverTime, wall, genS, solveS float64, unitErrs []string, timeout int) {
	trusted := map[string]bool{}
	var fns []string
	notes := map[string]bool{}
	havoc := map[string]bool{}
	inlined := map[string]bool{}
	for _, u := range units {
		fns = append(fns, u.unitName())
		for n, d := range u.usedExt {
			trusted["assumed contract (outside /repo): "+n+" — "+d] = true
		}
		for n := range u.smt.notes {
			notes[n] = true
		}
		for _, h := range u.havocked {
			havoc[h] = true
		}
		for n := range u.inlined {
			inlined[n] = true
		}
		for c := range u.usedContracts {
			fc := eng.cs.Funcs[contractKeyOf(eng, c)]
			if fc != nil && fc.Trusted {
				trusted["trusted (unverified) contract in /repo: "+c] = true
			}
		}
	}
	for _, s := range eng.cs.Scan {
		trusted["scan: "+s] = true
	}
	trusted["the verifier itself: govc SSA->SMT translation (engine/), z3 4.8.12, z3 5.1.0, cvc5 1.0"] = true
	trusted["go/ssa (x/tools v0.29.0) as the semantics of the Go source"] = true
	var tb []string
	for t := range trusted {
		tb = append(tb, t)
	}
	sort.Strings(tb)
	var assumptions []string
	for n := range notes {
		assumptions = append(assumptions, n)
	}
	for h := range havoc {
		assumptions = append(assumptions, "call abstracted by havoc of its inferred frame (result unconstrained): "+h)
	}
	sort.Strings(assumptions)
	sort.Strings(fns)
	var inl []string
	for n := range inlined {
		inl = append(inl, n)
	}
	sort.Strings(inl)
	// samples: a few obligations written out
	var samples []map[string]interface{}
	for _, o := range obls {
		if len(samples) >= 4 {
			break
		}
		if o.Kind == "ensures" || o.Kind == "inv.keep" || o.Kind == "lemma" || o.Kind == "assert" {
			g := o.Goal
			if len(g) > 600 {
				g = g[:600] + "…"
			}
			samples = append(samples, map[string]interface{}{"obligation": o.Name, "source": o.Text, "goal_smt": g, "verdict": o.Verdict, "solver": o.Solver, "premises": o.NAssert})
		}
	}
	if len(samples) == 0 && len(obls) > 0 {
		o := obls[0]
		samples = append(samples, map[string]interface{}{"obligation": o.Name, "source": o.Text, "verdict": o.Verdict})
	}
	nonCover := 0
	for _, o := range obls {
		if !o.Cover {
			nonCover++
		}
	}
	ev := map[string]interface{}{
		"property_id": prop, "tier": tier, "seed": seed, "level": "proof",
		"coverage": map[string]interface{}{
			"obligations":              nonCover - nKnown,
			"discharged":               nDis,
			"finding_obligations":      nKnown,
			"vacuity_covers_ok":        nCover,
			"checker_cmd":              fmt.Sprintf("/verif/bin/govc check -prop %s -tier %s (z3-new 5.1.0 -> z3 4.8.12 -> cvc5 1.0.x per obligation, %ds each)", prop, tier, timeout),
			"trusted_base":             tb,
			"functions_under_contract": fns,
			"inlined_helpers":          inl,
			"discharged_by_backend":    byBackend,
			"solver_time_s":            round3(solverTime),
			"translation_errors":       unitErrs,
			"obligation_list":          reps,
			"samples":                  samples,
			"contract_files":           eng.cs.Files,
			"integers":                 "mathematical Int; unsigned arithmetic and conversions wrap mod 2^w; signed overflow not modelled",
		},
		"assumptions": assumptions,
		"wall_s":      round3(wall),
		"violations":  nViol,
	}
	os.MkdirAll(filepath.Join(verif, "evidence"), 0o755)
	b, _ := json.MarshalIndent(ev, "", " ")
	os.WriteFile(filepath.Join(verif, "evidence", prop+".json"), b, 0o644)
}

func contractKeyOf(eng *Engine, fnString string) string {
	for k, f := range eng.funcs {
		if f.String() == fnString {
			return k
		}
	}
	return ""
}

var _ = strings.TrimSpace
