package main

// Parser for contract expressions: Go expression syntax plus ==> and <==>.

import (
	"fmt"
	"strings"
	"unicode"
)

type NodeKind int

const (
	NIdent NodeKind = iota
	NInt
	NStr
	NUnary  // Op, Args[0]
	NBinary // Op, Args[0], Args[1]
	NCall   // Args[0]=fun, Args[1:]=args
	NSelect // Args[0].Name
	NIndex  // Args[0][Args[1]]
	NSlice  // Args[0][Args[1]:Args[2]] (nil allowed)
	NParen
	NTypeDecl // "x T" inside quantifier binder: Name=x, Args[0]=type expr
)

type Node struct {
	Kind NodeKind
	Op   string
	Name string
	Args []*Node
	Pos  int
}

func (n *Node) String() string {
	if n == nil {
		return ""
	}
	switch n.Kind {
	case NIdent, NInt:
		return n.Name
	case NStr:
		return fmt.Sprintf("%q", n.Name)
	case NUnary:
		return n.Op + n.Args[0].String()
	case NBinary:
		return "(" + n.Args[0].String() + " " + n.Op + " " + n.Args[1].String() + ")"
	case NCall:
		var as []string
		for _, a := range n.Args[1:] {
			as = append(as, a.String())
		}
		return n.Args[0].String() + "(" + strings.Join(as, ", ") + ")"
	case NSelect:
		return n.Args[0].String() + "." + n.Name
	case NIndex:
		return n.Args[0].String() + "[" + n.Args[1].String() + "]"
	case NSlice:
		lo, hi := "", ""
		if n.Args[1] != nil {
			lo = n.Args[1].String()
		}
		if n.Args[2] != nil {
			hi = n.Args[2].String()
		}
		return n.Args[0].String() + "[" + lo + ":" + hi + "]"
	case NParen:
		return "(" + n.Args[0].String() + ")"
	case NTypeDecl:
		return n.Name + " " + n.Args[0].String()
	}
	return "?"
}

type tok struct {
	kind string // id, int, str, op, eof
	text string
	pos  int
}

func lex(src string) ([]tok, error) {
	var toks []tok
	i := 0
	ops := []string{"<==>", "==>", "&&", "||", "==", "!=", "<=", ">=", "<<", ">>", "+", "-", "*", "/", "%", "<", ">", "!", "(", ")", "[", "]", ",", ".", ":", "&", "|", "^"}
	for i < len(src) {
		c := rune(src[i])
		switch {
		case unicode.IsSpace(c):
			i++
		case unicode.IsLetter(c) || c == '_':
			j := i
			for j < len(src) && (unicode.IsLetter(rune(src[j])) || unicode.IsDigit(rune(src[j])) || src[j] == '_') {
				j++
			}
			toks = append(toks, tok{"id", src[i:j], i})
			i = j
		case unicode.IsDigit(c):
			j := i
			for j < len(src) && (unicode.IsDigit(rune(src[j])) || src[j] == 'x' || (src[j] >= 'a' && src[j] <= 'f') || (src[j] >= 'A' && src[j] <= 'F') || src[j] == '_') {
				j++
			}
			toks = append(toks, tok{"int", strings.ReplaceAll(src[i:j], "_", ""), i})
			i = j
		case c == '"':
			j := i + 1
			for j < len(src) && src[j] != '"' {
				if src[j] == '\\' {
					j++
				}
				j++
			}
			if j >= len(src) {
				return nil, fmt.Errorf("unterminated string at %d", i)
			}
			toks = append(toks, tok{"str", src[i+1 : j], i})
			i = j + 1
		default:
			found := false
			for _, op := range ops {
				if strings.HasPrefix(src[i:], op) {
					toks = append(toks, tok{"op", op, i})
					i += len(op)
					found = true
					break
				}
			}
			if !found {
				return nil, fmt.Errorf("unexpected character %q at %d in %q", c, i, src)
			}
		}
	}
	toks = append(toks, tok{"eof", "", len(src)})
	return toks, nil
}

type parser struct {
	toks    []tok
	p       int
	src     string
	binders bool // every call argument "x *T" is a binder (lemma heads)
}

func ParseHead(src string) (*Node, error) { return parseSpec(src, true) }
func ParseSpec(src string) (*Node, error) { return parseSpec(src, false) }

func parseSpec(src string, binders bool) (n *Node, err error) {
	toks, err := lex(src)
	if err != nil {
		return nil, err
	}
	ps := &parser{toks: toks, src: src, binders: binders}
	defer func() {
		if r := recover(); r != nil {
			if e, ok := r.(parseErr); ok {
				err = fmt.Errorf("%s in %q", string(e), src)
				return
			}
			panic(r)
		}
	}()
	n = ps.expr(0)
	if ps.peek().kind != "eof" {
		ps.fail("trailing input at %d (%q)", ps.peek().pos, ps.peek().text)
	}
	return n, nil
}

type parseErr string

func (ps *parser) fail(f string, a ...interface{}) { panic(parseErr(fmt.Sprintf(f, a...))) }
func (ps *parser) peek() tok                       { return ps.toks[ps.p] }
func (ps *parser) next() tok                       { t := ps.toks[ps.p]; ps.p++; return t }
func (ps *parser) isOp(s string) bool              { t := ps.peek(); return t.kind == "op" && t.text == s }
func (ps *parser) expect(s string) {
	if !ps.isOp(s) {
		ps.fail("expected %q at %d, got %q", s, ps.peek().pos, ps.peek().text)
	}
	ps.p++
}

var binPrec = map[string]int{
	"<==>": 1, "==>": 2, "||": 3, "&&": 4,
	"==": 5, "!=": 5, "<": 5, "<=": 5, ">": 5, ">=": 5,
	"+": 6, "-": 6, "|": 6, "^": 6,
	"*": 7, "/": 7, "%": 7, "<<": 7, ">>": 7, "&": 7,
}

func (ps *parser) expr(minPrec int) *Node {
	lhs := ps.unary()
	for {
		t := ps.peek()
		if t.kind != "op" {
			break
		}
		prec, ok := binPrec[t.text]
		if !ok || prec < minPrec {
			break
		}
		ps.next()
		var rhs *Node
		if t.text == "==>" {
			rhs = ps.expr(prec) // right associative
		} else {
			rhs = ps.expr(prec + 1)
		}
		lhs = &Node{Kind: NBinary, Op: t.text, Args: []*Node{lhs, rhs}, Pos: t.pos}
	}
	return lhs
}

func (ps *parser) unary() *Node {
	t := ps.peek()
	if t.kind == "op" && (t.text == "!" || t.text == "-" || t.text == "*" || t.text == "&") {
		ps.next()
		x := ps.unary()
		return &Node{Kind: NUnary, Op: t.text, Args: []*Node{x}, Pos: t.pos}
	}
	if t.kind == "op" && t.text == "[" { // []T type expression
		ps.next()
		ps.expect("]")
		x := ps.unary()
		return &Node{Kind: NUnary, Op: "[]", Args: []*Node{x}, Pos: t.pos}
	}
	return ps.postfix(ps.primary())
}

func (ps *parser) primary() *Node {
	t := ps.next()
	switch t.kind {
	case "id":
		return &Node{Kind: NIdent, Name: t.text, Pos: t.pos}
	case "int":
		return &Node{Kind: NInt, Name: t.text, Pos: t.pos}
	case "str":
		return &Node{Kind: NStr, Name: t.text, Pos: t.pos}
	case "op":
		if t.text == "(" {
			x := ps.expr(0)
			ps.expect(")")
			return &Node{Kind: NParen, Args: []*Node{x}, Pos: t.pos}
		}
	}
	ps.fail("unexpected %q at %d", t.text, t.pos)
	return nil
}

func (ps *parser) postfix(x *Node) *Node {
	for {
		t := ps.peek()
		if t.kind != "op" {
			return x
		}
		switch t.text {
		case ".":
			ps.next()
			id := ps.next()
			if id.kind != "id" {
				ps.fail("expected field name at %d", id.pos)
			}
			x = &Node{Kind: NSelect, Name: id.text, Args: []*Node{x}, Pos: t.pos}
		case "(":
			ps.next()
			args := []*Node{x}
			for !ps.isOp(")") {
				var a *Node
				isQuant := x.Kind == NIdent && (x.Name == "forall" || x.Name == "exists")
				if ps.binders && ps.peek().kind == "id" && ps.toks[ps.p+1].kind != "op" || ps.binders && ps.peek().kind == "id" && (ps.toks[ps.p+1].text == "*" || ps.toks[ps.p+1].text == "[") {
					id := ps.next()
					ty := ps.unary()
					a = &Node{Kind: NTypeDecl, Name: id.text, Args: []*Node{ty}, Pos: id.pos}
				} else if len(args) == 1 && ps.peek().kind == "id" && (ps.toks[ps.p+1].kind == "id" ||
					(isQuant && ps.toks[ps.p+1].kind == "op" && (ps.toks[ps.p+1].text == "*" || ps.toks[ps.p+1].text == "["))) {
					// binder with type: "x T"
					id := ps.next()
					ty := ps.unary()
					a = &Node{Kind: NTypeDecl, Name: id.text, Args: []*Node{ty}, Pos: id.pos}
				} else if ps.peek().kind == "id" && ps.toks[ps.p+1].kind == "id" {
					id := ps.next()
					ty := ps.unary()
					a = &Node{Kind: NTypeDecl, Name: id.text, Args: []*Node{ty}, Pos: id.pos}
				} else {
					a = ps.expr(0)
				}
				args = append(args, a)
				if ps.isOp(",") {
					ps.next()
				} else {
					break
				}
			}
			ps.expect(")")
			x = &Node{Kind: NCall, Args: args, Pos: t.pos}
		case "[":
			ps.next()
			var lo, hi *Node
			if !ps.isOp(":") {
				lo = ps.expr(0)
			}
			if ps.isOp(":") {
				ps.next()
				if !ps.isOp("]") {
					hi = ps.expr(0)
				}
				ps.expect("]")
				x = &Node{Kind: NSlice, Args: []*Node{x, lo, hi}, Pos: t.pos}
			} else {
				ps.expect("]")
				x = &Node{Kind: NIndex, Args: []*Node{x, lo}, Pos: t.pos}
			}
		default:
			return x
		}
	}
}
