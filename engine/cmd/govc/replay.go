package main

// Replay of solver counterexamples against the real code (filled in per function family).

func tryReplay(verif, prop string, o *Obligation, content map[string]interface{}) bool {
	return false
}
