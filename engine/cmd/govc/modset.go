package main

// Static over-approximation of the heap keys a function may write (its inferred frame).

import (
	"strings"
	"sort"
	"go/token"
	"go/types"

	"golang.org/x/tools/go/ssa"
)

func kiField(t types.Type, i int) KeyInfo {
	_, st := namedStruct(t)
	return KeyInfo{Key: fieldKeyName(t, st, i), Dims: 1, CellT: st.Field(i).Type()}
}
func kiElem(elem types.Type) KeyInfo {
	return KeyInfo{Key: "E!" + shortType(elem), Dims: 2, CellT: elem}
}
func kiBox(t types.Type) KeyInfo { return KeyInfo{Key: "B!" + shortType(t), Dims: 1, CellT: t} }
func kiGlobal(name string, t types.Type) KeyInfo {
	return KeyInfo{Key: "G!" + sanitize(name), Dims: 0, CellT: t}
}
func kiMap(m *types.Map) []KeyInfo {
	n := shortType(m.Key()) + "!" + shortType(m.Elem())
	return []KeyInfo{{Key: "MD!" + n, Map: m}, {Key: "MV!" + n, Map: m}}
}
func kiGhost(name, sortS string) KeyInfo { return KeyInfo{Key: "GH!" + name, Ghost: sortS} }

func addPointeeKeys(ms *ModSet, t types.Type) {
	t = types.Unalias(t)
	if isRefStruct(t) {
		_, st := namedStruct(t)
		for i := 0; i < st.NumFields(); i++ {
			ms.add(kiField(t, i))
		}
		return
	}
	if a, ok := t.Underlying().(*types.Array); ok && !isOpaqueNamed(t) {
		ms.add(kiElem(a.Elem()))
		return
	}
	ms.add(kiBox(t))
}

// addrKeys: heap keys possibly written by a store through address value a.
func addrKeys(ms *ModSet, a ssa.Value) {
	switch x := a.(type) {
	case *ssa.FieldAddr:
		base := x.X
		bt := deref(base.Type())
		// nested: field of a struct that is itself inside a cell
		switch b := base.(type) {
		case *ssa.FieldAddr, *ssa.IndexAddr:
			addrKeys(ms, b)
			return
		}
		if isRefStruct(bt) {
			ms.add(kiField(bt, x.Field))
			return
		}
		addPointeeKeys(ms, bt)
	case *ssa.IndexAddr:
		xt := x.X.Type().Underlying()
		switch u := xt.(type) {
		case *types.Slice:
			ms.add(kiElem(u.Elem()))
		case *types.Pointer:
			if arr, ok := u.Elem().Underlying().(*types.Array); ok {
				switch b := x.X.(type) {
				case *ssa.FieldAddr, *ssa.IndexAddr:
					addrKeys(ms, b)
					return
				}
				if isOpaqueNamed(u.Elem()) {
					ms.add(kiBox(u.Elem()))
				} else {
					ms.add(kiElem(arr.Elem()))
				}
			}
		}
	case *ssa.Global:
		ms.add(kiGlobal(x.String(), deref(x.Type())))
	default:
		addPointeeKeys(ms, deref(a.Type()))
	}
}

func deref(t types.Type) types.Type {
	if p, ok := t.Underlying().(*types.Pointer); ok {
		return p.Elem()
	}
	return t
}

func (e *Engine) modSetOf(fn *ssa.Function) *ModSet {
	if ms, ok := e.modsets[fn]; ok {
		return ms
	}
	if fc := e.contractOf(fn); fc != nil && fc.Trusted && fc.Opts["modifies"] == "none" {
		// trusted contract with a declared empty frame over the modelled heap (listed in evidence)
		ms := newModSet()
		e.modsets[fn] = ms
		return ms
	}
	ms := newModSet()
	e.modsets[fn] = ms // provisional (recursion -> fixpoint below)
	for iter := 0; iter < 10; iter++ {
		changed := e.modSetPass(fn, ms)
		if !changed {
			break
		}
	}
	if fc := e.contractOf(fn); fc != nil && strings.HasPrefix(fc.Opts["frame"], "freshonly") {
		except := strings.Fields(strings.TrimPrefix(strings.TrimPrefix(fc.Opts["frame"], "freshonly"), " except"))
		// assumed frame (listed as trusted): of the program heap the function writes only objects it
		// allocates itself (directly or in its callees); ghost state as inferred
		for k, ki := range ms.Keys {
			keep := false
			for _, x := range except {
				if x != "except" && strings.Contains(k, x) {
					keep = true // listed exception: may be written in objects of the caller
				}
			}
			if ki.Ghost == "" && ki.VisitedOf == nil && !keep {
				ki.FreshOnly = true
				ms.Keys[k] = ki
			}
		}
	}
	return ms
}

func (e *Engine) modSetPass(fn *ssa.Function, ms *ModSet) bool {
	before := len(ms.Keys)
	beforeAll := ms.All
	if em := e.extModel(fn); em != nil {
		em.mods(ms, nil)
		return len(ms.Keys) != before || ms.All != beforeAll
	}
	if fn.Blocks == nil {
		if !ms.All {
			ms.All = true
			ms.Why = append(ms.Why, "no body: "+fn.String())
		}
		return ms.All != beforeAll
	}
	for _, b := range fn.Blocks {
		for _, in := range b.Instrs {
			e.instrMods(in, ms, nil)
		}
	}
	return len(ms.Keys) != before || ms.All != beforeAll
}

func (e *Engine) instrMods(in ssa.Instruction, ms *ModSet, inLoop map[*ssa.BasicBlock]bool) {
	switch x := in.(type) {
	case *ssa.Store:
		tmp := newModSet()
		addrKeys(tmp, x.Addr)
		root, direct := storeRoot(x.Addr)
		al, isAlloc := root.(*ssa.Alloc)
		if isAlloc && inLoop != nil && !inLoop[al.Block()] {
			isAlloc = false // allocated before the loop: not fresh from the loop's point of view
		}
		for _, ki := range tmp.Keys {
			ki.FreshOnly = direct && isAlloc
			ms.add(ki)
		}
	case *ssa.Alloc:
		tmp := newModSet()
		addPointeeKeys(tmp, deref(x.Type()))
		for _, ki := range tmp.Keys {
			ki.FreshOnly = true
			ms.add(ki)
		}
	case *ssa.MapUpdate:
		for _, k := range kiMap(x.Map.Type().Underlying().(*types.Map)) {
			ms.add(k)
		}
	case *ssa.MakeMap:
		for _, k := range kiMap(x.Type().Underlying().(*types.Map)) {
			k.FreshOnly = true
			ms.add(k)
		}
	case *ssa.MakeSlice:
		k := kiElem(x.Type().Underlying().(*types.Slice).Elem())
		k.FreshOnly = true
		ms.add(k)
	case *ssa.MakeInterface:
		if _, isInt := sortIsInt(x.X.Type()); !isInt {
			tmp := newModSet()
			addPointeeKeys(tmp, x.X.Type())
			for _, ki := range tmp.Keys {
				ki.FreshOnly = true
				ms.add(ki)
			}
		}
	case *ssa.Next:
		if rg, ok := x.Iter.(*ssa.Range); ok {
			if mt, ok := rg.X.Type().Underlying().(*types.Map); ok {
				ms.add(visitedKey(rg, mt))
				ms.add(visitCountKey(rg))
			}
		}
	case *ssa.Send:
		ms.add(kiGhost("chanlog", "Int"))
		ms.add(kiGhost("handed", "(Array Int Bool)"))
	case *ssa.Select:
		for _, sc := range x.States {
			if sc.Dir == types.RecvOnly {
				ms.add(kiGhost("nrecv", "(Array Int Int)"))
			} else {
				ms.add(kiGhost("handed", "(Array Int Bool)"))
			}
		}
	case *ssa.UnOp:
		if x.Op == token.ARROW {
			ms.add(kiGhost("nrecv", "(Array Int Int)"))
		}
	case *ssa.Go:
		// spawned goroutine: its effects are outside sequential reasoning (noted in evidence)
	case *ssa.Call:
		e.callMods(x.Common(), ms, inLoop)
	case *ssa.Defer:
		e.callMods(x.Common(), ms, inLoop)
	}
}

func sortIsInt(t types.Type) (string, bool) {
	switch t.Underlying().(type) {
	case *types.Pointer, *types.Map, *types.Chan, *types.Signature:
		return "Int", true
	}
	return "", false
}

func (e *Engine) callMods(c *ssa.CallCommon, ms *ModSet, inLoop map[*ssa.BasicBlock]bool) {
	if c.IsInvoke() {
		if em := e.extInvoke(c); em != nil {
			em.mods(ms, c)
			return
		}
		if e.isCallbackIface(c) {
			return
		}
		if impls := e.closedImpls(c); impls != nil {
			for _, f := range impls {
				ms.union(e.modSetOf(f))
			}
			return
		}
		if !ms.All {
			ms.All = true
			ms.Why = append(ms.Why, "invoke "+c.Method.FullName())
		}
		return
	}
	switch f := c.Value.(type) {
	case *ssa.Builtin:
		switch f.Name() {
		case "append":
			ms.add(kiElem(c.Args[0].Type().Underlying().(*types.Slice).Elem()))
		case "copy":
			if s, ok := c.Args[0].Type().Underlying().(*types.Slice); ok {
				ms.add(kiElem(s.Elem()))
			}
		case "delete":
			for _, k := range kiMap(c.Args[0].Type().Underlying().(*types.Map)) {
				ms.add(k)
			}
		}
	case *ssa.Function:
		if em := e.extModel(f); em != nil {
			if em.targets == nil {
				em.mods(ms, c)
				return
			}
			// the model says through which pointers it writes: writes through locally allocated objects are fresh for callers
			tmp := newModSet()
			em.mods(tmp, c)
			allAlloc := true
			for _, t := range em.targets(c) {
				root, direct := storeRoot(t)
				al, isAlloc := root.(*ssa.Alloc)
				if !direct || !isAlloc || inLoop != nil && !inLoop[al.Block()] {
					allAlloc = false
				}
			}
			for _, ki := range tmp.Keys {
				if ki.Ghost == "" && ki.Dims == 1 && ki.Map == nil {
					ki.FreshOnly = allAlloc
				}
				ms.add(ki)
			}
			if tmp.All {
				ms.All = true
				ms.Why = append(ms.Why, tmp.Why...)
			}
			return
		}
		ms.union(e.modSetOf(f))
	case *ssa.MakeClosure:
		if fn, ok := f.Fn.(*ssa.Function); ok {
			ms.union(e.modSetOf(fn))
		}
	default:
		if !ms.All {
			ms.All = true
			ms.Why = append(ms.Why, "dynamic call "+c.String())
		}
	}
}

// loopMods: keys written inside a set of blocks.
func (e *Engine) blocksMods(blocks []*ssa.BasicBlock, inLoop map[*ssa.BasicBlock]bool) *ModSet {
	ms := newModSet()
	for _, b := range blocks {
		for _, in := range b.Instrs {
			e.instrMods(in, ms, inLoop)
		}
	}
	return ms
}

// storeRoot: the reference whose heap cell a store through addr writes; direct=false when the
// cell is reached through a slice element or another indirection.
func storeRoot(addr ssa.Value) (ssa.Value, bool) {
	switch x := addr.(type) {
	case *ssa.FieldAddr:
		switch b := x.X.(type) {
		case *ssa.FieldAddr:
			return storeRoot(b)
		case *ssa.IndexAddr:
			return storeRoot(b)
		}
		return x.X, true
	case *ssa.IndexAddr:
		if _, ok := x.X.Type().Underlying().(*types.Slice); ok {
			return x.X, false
		}
		switch b := x.X.(type) {
		case *ssa.FieldAddr:
			return storeRoot(b)
		case *ssa.IndexAddr:
			return storeRoot(b)
		}
		return x.X, true // pointer to array: row of the element heap
	}
	return addr, true
}

// loopFrame: for the blocks of a loop, per heap key, the loop-invariant references written
// (targets) or dirty=true when some write cannot be attributed.
type loopFrame struct {
	targets map[string][]ssa.Value
	dirty   map[string]bool
}

func (e *Engine) loopFrameInfo(li *loopInfo) *loopFrame {
	lf := &loopFrame{targets: map[string][]ssa.Value{}, dirty: map[string]bool{}}
	for _, b := range li.blocks {
		for _, in := range b.Instrs {
			switch x := in.(type) {
			case *ssa.Store:
				tmp := newModSet()
				addrKeys(tmp, x.Addr)
				root, direct := storeRoot(x.Addr)
				rin, isInstr := root.(ssa.Instruction)
				inLoop := isInstr && li.inLoop[rin.Block()]
				_, isAlloc := root.(*ssa.Alloc)
				for k := range tmp.Keys {
					switch {
					case !direct:
						lf.dirty[k] = true
					case inLoop && isAlloc:
						// fresh object of this iteration
					case !inLoop:
						lf.targets[k] = append(lf.targets[k], root)
					default:
						lf.dirty[k] = true
					}
				}
			case *ssa.Alloc, *ssa.MakeInterface, *ssa.MakeSlice, *ssa.MakeMap, *ssa.DebugRef:
			case *ssa.Call:
				// calls to dependency models that say through which pointers they write
				var em *extModel
				if f := x.Common().StaticCallee(); f != nil && !x.Common().IsInvoke() {
					em = e.extModel(f)
				}
				if em == nil || em.targets == nil {
					tmp := newModSet()
					e.instrMods(in, tmp, li.inLoop)
					for k, ki := range tmp.Keys {
						if !ki.FreshOnly {
							lf.dirty[k] = true
						}
					}
					if tmp.All {
						lf.dirty["*"] = true
					}
					continue
				}
				tmp := newModSet()
				em.mods(tmp, x.Common())
				tg := em.targets(x.Common())
				for k, ki := range tmp.Keys {
					if ki.Ghost != "" || ki.Dims != 1 {
						if ki.Ghost == "" && !ki.FreshOnly {
							lf.dirty[k] = true
						}
						continue
					}
					for _, t := range tg {
						root, direct := storeRoot(t)
						rin, isInstr := root.(ssa.Instruction)
						inLoop := isInstr && li.inLoop[rin.Block()]
						_, isAlloc := root.(*ssa.Alloc)
						switch {
						case !direct:
							lf.dirty[k] = true
						case inLoop && isAlloc:
						case !inLoop:
							lf.targets[k] = append(lf.targets[k], root)
						default:
							lf.dirty[k] = true
						}
					}
				}
			default:
				tmp := newModSet()
				e.instrMods(in, tmp, li.inLoop)
				for k, ki := range tmp.Keys {
					if !ki.FreshOnly {
						lf.dirty[k] = true
					}
				}
				if tmp.All {
					lf.dirty["*"] = true
				}
			}
		}
	}
	return lf
}

// visitCountKey: ghost counter of the keys a map range has produced so far.
func visitCountKey(rg *ssa.Range) KeyInfo {
	return KeyInfo{Key: "GH!visitn!" + sanitize(rg.Parent().Name()) + "!" + rg.Name(), Ghost: "Int"}
}

func visitedKey(rg *ssa.Range, mt *types.Map) KeyInfo {
	return KeyInfo{Key: "GH!visited!" + sanitize(rg.Parent().Name()) + "!" + rg.Name(), VisitedOf: mt}
}

// closedImpls: for an invoke through an interface declared `closed` in the contracts, the methods
// of every type of the loaded packages that implements it; nil otherwise.
func (e *Engine) closedImpls(c *ssa.CallCommon) []*ssa.Function {
	n, ok := types.Unalias(c.Value.Type()).(*types.Named)
	if !ok || n.Obj().Pkg() == nil {
		return nil
	}
	tc := e.cs.Types[fkey(n.Obj().Pkg().Path(), n.Obj().Name())]
	if tc == nil || !tc.Closed {
		return nil
	}
	key := n.Obj().Pkg().Path() + "." + n.Obj().Name() + "." + c.Method.Name()
	if fs, ok := e.implCache[key]; ok {
		return fs
	}
	iface := n.Underlying().(*types.Interface)
	fs := []*ssa.Function{}
	for _, p := range e.prog.AllPackages() {
		var names []string
		for m := range p.Members {
			names = append(names, m)
		}
		sort.Strings(names)
		for _, m := range names {
			tm, ok := p.Members[m].(*ssa.Type)
			if !ok {
				continue
			}
			if _, isIface := tm.Type().Underlying().(*types.Interface); isIface {
				continue
			}
			for _, t := range []types.Type{tm.Type(), types.NewPointer(tm.Type())} {
				if !types.Implements(t, iface) {
					continue
				}
				sel := e.prog.MethodSets.MethodSet(t).Lookup(c.Method.Pkg(), c.Method.Name())
				if sel == nil {
					continue
				}
				if f := e.prog.MethodValue(sel); f != nil {
					fs = append(fs, f)
				}
				break // *T's method set includes T's
			}
		}
	}
	e.implCache[key] = fs
	return fs
}

// isCallbackIface: the invoke goes through an interface declared `callbacks` in the contracts.
func (e *Engine) isCallbackIface(c *ssa.CallCommon) bool {
	n, ok := types.Unalias(c.Value.Type()).(*types.Named)
	if !ok || n.Obj().Pkg() == nil {
		return false
	}
	tc := e.cs.Types[fkey(n.Obj().Pkg().Path(), n.Obj().Name())]
	return tc != nil && tc.Callbacks
}
