package main

// Symbolic state: heap versions, locations, values.

import (
	"fmt"
	"go/types"
	"sort"
	"strings"
)

type Val struct {
	T     string // SMT term for ordinary values
	Loc   *Loc   // interior pointer (address of a heap cell or part of one)
	Tuple []Val
	// IterOf: for map range iterators
	Iter *mapIter
}

type pathElem struct {
	dt     string // struct datatype sort
	st     *types.Struct
	field  int
	arrIdx string // non-empty: array index step
	arrT   *types.Array
	opq    bool // field of an opaque (external) struct: uninterpreted getter / setter
}

type Loc struct {
	key   string
	idx   []string
	path  []pathElem
	cellT types.Type // type of the heap cell value
	T     types.Type // pointee type (after path)
}

type deferred struct {
	call interface{} // *ssa.Defer
	args []Val
}

type State struct {
	heaps  map[string]string
	epoch  int
	reach  string
	defers []deferred
	relock map[string]bool // mutex keys unlocked at least once on some path into this state
}

func (st *State) clone() *State {
	n := &State{heaps: make(map[string]string, len(st.heaps)), epoch: st.epoch, reach: st.reach, relock: map[string]bool{}}
	for k, v := range st.heaps {
		n.heaps[k] = v
	}
	for k := range st.relock {
		n.relock[k] = true
	}
	n.defers = append([]deferred(nil), st.defers...)
	return n
}

// heapReg records the sort and cell type of every heap key seen.
type heapReg struct {
	sort  map[string]string
	cellT map[string]types.Type
	dims  map[string]int
}

func newHeapReg() *heapReg {
	return &heapReg{sort: map[string]string{}, cellT: map[string]types.Type{}, dims: map[string]int{}}
}

func (v *FnVerifier) regKey(key string, dims int, cellT types.Type, cellSort string) {
	if _, ok := v.reg.sort[key]; ok {
		return
	}
	s := cellSort
	for i := 0; i < dims; i++ {
		s = "(Array Int " + s + ")"
	}
	v.reg.sort[key] = s
	v.reg.cellT[key] = cellT
	v.reg.dims[key] = dims
}

// heap returns the current term of a heap key in state st, creating the epoch version lazily.
func (v *FnVerifier) heap(st *State, key string) string {
	if t, ok := v.sentinelKeys[key]; ok {
		return t
	}
	if t, ok := st.heaps[key]; ok {
		return t
	}
	sortS, ok := v.reg.sort[key]
	if !ok {
		panic("heap key not registered: " + key)
	}
	name := fmt.Sprintf("%s@e%d", key, st.epoch)
	if _, seen := v.smt.declSeen[name]; !seen {
		v.smt.declare(name, sortS)
		v.assumeClosed(key, name, v.allocOfEpoch(st.epoch))
	}
	st.heaps[key] = name
	return name
}

func (v *FnVerifier) allocOfEpoch(e int) string {
	return v.epochAlloc[e]
}

const allocKey = "alloc"

func (v *FnVerifier) alloc(st *State) string {
	if t, ok := st.heaps[allocKey]; ok {
		return t
	}
	return v.epochAlloc[st.epoch]
}

// assumeClosed: pointers/slices/maps stored in heap `name` refer to allocated objects (< alloc).
func (v *FnVerifier) assumeClosed(key, name, alloc string) {
	if key == "GH!transmitted" || key == "GH!sdirty" || key == "GH!handed" {
		// only objects that exist can have been handed to TransmitMessage / can have met a malformation
		v.smt.assert(fmt.Sprintf("(forall ((q0 Int)) (! (=> (select %s q0) (< q0 %s)) :pattern ((select %s q0))))", name, alloc, name))
		return
	}
	if mt, ok := v.mapTypes[key]; ok && strings.HasPrefix(key, "MV!") {
		cell := sel(sel(name, "m"), "k")
		fact := v.closedFact(cell, mt.Elem(), alloc, 0)
		if fact != "true" {
			v.smt.assert(fmt.Sprintf("(forall ((m Int) (k %s)) (! %s :pattern (%s)))", v.smt.sortOf(mt.Key()), fact, cell))
		}
		return
	}
	t := v.reg.cellT[key]
	if t == nil {
		return
	}
	dims := v.reg.dims[key]
	var vars, idx []string
	cell := name
	for i := 0; i < dims; i++ {
		x := fmt.Sprintf("q%d", i)
		vars = append(vars, "("+x+" Int)")
		idx = append(idx, x)
		cell = sel(cell, x)
	}
	fact := v.closedFact(cell, t, alloc, 0)
	if fact == "true" {
		return
	}
	if dims == 0 {
		v.smt.assert(fact)
		return
	}
	v.smt.assert(fmt.Sprintf("(forall (%s) (! %s :pattern (%s)))", strings.Join(vars, " "), fact, cell))
}

// closedFact: well-formedness of a value of Go type t given as term x.
func (v *FnVerifier) closedFact(x string, t types.Type, alloc string, depth int) string {
	switch u := t.Underlying().(type) {
	case *types.Pointer, *types.Map, *types.Chan:
		return and("(<= 0 "+x+")", "(< "+x+" "+alloc+")")
	case *types.Slice:
		return and("(<= 0 (s.arr "+x+"))", "(< (s.arr "+x+") "+alloc+")", "(<= 0 (s.off "+x+"))", "(<= 0 (s.len "+x+"))", "(<= (s.len "+x+") (s.cap "+x+"))", "(< (s.cap "+x+") 9223372036854775808)",
			"(=> (= (s.arr "+x+") 0) (= (s.cap "+x+") 0))")
	case *types.Interface:
		return and("(<= 0 (i.tag "+x+"))", "(< (i.val "+x+") "+alloc+")", "(=> (= (i.tag "+x+") 0) (= (i.val "+x+") 0))")
	case *types.Basic:
		return intRange(x, u)
	case *types.Struct:
		if isOpaqueNamed(t) || depth > 2 {
			return "true"
		}
		dt := v.smt.sortOf(t)
		var fs []string
		for i := 0; i < u.NumFields(); i++ {
			fs = append(fs, v.closedFact(fmt.Sprintf("(%s!%s %s)", dt, u.Field(i).Name(), x), u.Field(i).Type(), alloc, depth+1))
		}
		return and(fs...)
	}
	return "true"
}

func intBits(b *types.Basic) (bits int, signed bool, ok bool) {
	switch b.Kind() {
	case types.Int8:
		return 8, true, true
	case types.Int16:
		return 16, true, true
	case types.Int32, types.UntypedRune:
		return 32, true, true
	case types.Int64, types.Int, types.UntypedInt:
		return 64, true, true
	case types.Uint8:
		return 8, false, true
	case types.Uint16:
		return 16, false, true
	case types.Uint32:
		return 32, false, true
	case types.Uint64, types.Uint, types.Uintptr:
		return 64, false, true
	}
	return 0, false, false
}

func pow2(n int) string {
	// exact decimal of 2^n for n<=64
	x := uint64(1)
	if n < 64 {
		return fmt.Sprintf("%d", x<<uint(n))
	}
	return "18446744073709551616"
}

func intRange(x string, b *types.Basic) string {
	bits, signed, ok := intBits(b)
	if !ok {
		return "true"
	}
	if signed {
		return and("(<= (- "+pow2(bits-1)+") "+x+")", "(< "+x+" "+pow2(bits-1)+")")
	}
	return and("(<= 0 "+x+")", "(< "+x+" "+pow2(bits)+")")
}

// ---- heap keys ----

func namedStruct(t types.Type) (*types.Named, *types.Struct) {
	t = types.Unalias(t)
	if n, ok := t.(*types.Named); ok {
		if s, ok := n.Underlying().(*types.Struct); ok {
			return n, s
		}
		return nil, nil
	}
	if s, ok := t.(*types.Struct); ok {
		return nil, s
	}
	return nil, nil
}

// isRefStruct: pointee struct type modelled by per-field heaps.
func isRefStruct(t types.Type) bool {
	_, s := namedStruct(t)
	return s != nil && !isOpaqueNamed(t)
}

func fieldKeyName(t types.Type, st *types.Struct, i int) string {
	return "F!" + structName(types.Unalias(t)) + "!" + st.Field(i).Name()
}

func (v *FnVerifier) fieldKey(t types.Type, i int) string {
	_, st := namedStruct(t)
	k := fieldKeyName(t, st, i)
	v.regKey(k, 1, st.Field(i).Type(), v.smt.sortOf(st.Field(i).Type()))
	return k
}

func (v *FnVerifier) elemKey(elem types.Type) string {
	k := "E!" + shortType(elem)
	v.regKey(k, 2, elem, v.smt.sortOf(elem))
	return k
}

func (v *FnVerifier) boxKey(t types.Type) string {
	k := "B!" + shortType(t)
	v.regKey(k, 1, t, v.smt.sortOf(t))
	return k
}

func (v *FnVerifier) mapKeys(m *types.Map) (dom, val string) {
	n := shortType(m.Key()) + "!" + shortType(m.Elem())
	dom, val = "MD!"+n, "MV!"+n
	ks := v.smt.sortOf(m.Key())
	if _, ok := v.reg.sort[dom]; !ok {
		v.reg.sort[dom] = "(Array Int (Array " + ks + " Bool))"
		v.reg.dims[dom] = -1
		v.reg.sort[val] = "(Array Int (Array " + ks + " " + v.smt.sortOf(m.Elem()) + "))"
		v.reg.dims[val] = -1
		v.reg.cellT[val] = nil
		v.mapTypes[val] = m
	}
	return
}

func (v *FnVerifier) globalKey(name string, t types.Type) string {
	k := "G!" + sanitize(name)
	v.regKey(k, 0, t, v.smt.sortOf(t))
	if n, ok := v.eng.sentinels[name]; ok {
		if _, seen := v.sentinelKeys[k]; !seen {
			v.sentinelKeys[k] = fmt.Sprintf("(mk-iface 9001 (- %d))", n)
			cause := v.smt.declareFun("uf!errCause", []string{"Iface"}, "Iface")
			v.smt.axiom(eq(app(cause, v.sentinelKeys[k]), v.sentinelKeys[k]))
			v.smt.note("package-level error variables initialised by errors.New are constants (non-nil, pairwise distinct, never reassigned)")
		}
	}
	return k
}

func (v *FnVerifier) ghostKey(name, sortS string) string {
	k := "GH!" + name
	if _, ok := v.reg.sort[k]; !ok {
		v.reg.sort[k] = sortS
		v.reg.dims[k] = -1
	}
	return k
}

// ---- load / store through locations ----

func (v *FnVerifier) cellOf(st *State, l *Loc) string {
	c := v.heap(st, l.key)
	for _, i := range l.idx {
		c = sel(c, i)
	}
	return c
}

func (v *FnVerifier) loadLoc(st *State, l *Loc) string {
	c := v.cellOf(st, l)
	for _, p := range l.path {
		if p.arrIdx != "" {
			c = sel(c, p.arrIdx)
		} else if p.opq {
			f := v.smt.declareFun("getf!"+p.dt+"!"+p.st.Field(p.field).Name(), []string{p.dt}, v.smt.sortOf(p.st.Field(p.field).Type()))
			c = app(f, c)
		} else {
			c = fmt.Sprintf("(%s!%s %s)", p.dt, p.st.Field(p.field).Name(), c)
		}
	}
	return c
}

func (v *FnVerifier) updPath(cell string, path []pathElem, val string) string {
	if len(path) == 0 {
		return val
	}
	p := path[0]
	if p.arrIdx != "" {
		return sto(cell, p.arrIdx, v.updPath(sel(cell, p.arrIdx), path[1:], val))
	}
	if p.opq {
		ft := v.smt.sortOf(p.st.Field(p.field).Type())
		g := v.smt.declareFun("getf!"+p.dt+"!"+p.st.Field(p.field).Name(), []string{p.dt}, ft)
		f := v.smt.declareFun("setf!"+p.dt+"!"+p.st.Field(p.field).Name(), []string{p.dt, ft}, p.dt)
		return app(f, cell, v.updPath(app(g, cell), path[1:], val))
	}
	var fs []string
	for i := 0; i < p.st.NumFields(); i++ {
		acc := fmt.Sprintf("(%s!%s %s)", p.dt, p.st.Field(i).Name(), cell)
		if i == p.field {
			fs = append(fs, v.updPath(acc, path[1:], val))
		} else {
			fs = append(fs, acc)
		}
	}
	return fmt.Sprintf("(mk!%s %s)", p.dt, strings.Join(fs, " "))
}

func (v *FnVerifier) setHeap(st *State, key, term string) {
	name := v.smt.define(key, v.reg.sort[key], term)
	st.heaps[key] = name
}

func (v *FnVerifier) storeLoc(st *State, l *Loc, val string) {
	h := v.heap(st, l.key)
	newCell := v.updPath(v.cellOf(st, l), l.path, val)
	var t string
	switch len(l.idx) {
	case 0:
		t = newCell
	case 1:
		t = sto(h, l.idx[0], newCell)
	case 2:
		t = sto(h, l.idx[0], sto(sel(h, l.idx[0]), l.idx[1], newCell))
	}
	v.setHeap(st, l.key, t)
}

// loadStruct builds a struct value from the per-field heaps of ref.
func (v *FnVerifier) loadStruct(st *State, ref string, t types.Type) string {
	_, s := namedStruct(t)
	dt := v.smt.sortOf(t)
	var fs []string
	for i := 0; i < s.NumFields(); i++ {
		fs = append(fs, sel(v.heap(st, v.fieldKey(t, i)), ref))
	}
	if len(fs) == 0 {
		fs = []string{"0"}
	}
	return fmt.Sprintf("(mk!%s %s)", dt, strings.Join(fs, " "))
}

func (v *FnVerifier) storeStruct(st *State, ref string, t types.Type, val string) {
	_, s := namedStruct(t)
	dt := v.smt.sortOf(t)
	for i := 0; i < s.NumFields(); i++ {
		k := v.fieldKey(t, i)
		v.setHeap(st, k, sto(v.heap(st, k), ref, fmt.Sprintf("(%s!%s %s)", dt, s.Field(i).Name(), val)))
	}
}

// loadPtr dereferences a pointer value (Ref or Loc) whose pointee type is t.
func (v *FnVerifier) loadPtr(st *State, p Val, t types.Type) string {
	if p.Loc != nil {
		return v.loadLoc(st, p.Loc)
	}
	if isRefStruct(t) {
		return v.loadStruct(st, p.T, t)
	}
	if a, ok := t.Underlying().(*types.Array); ok && !isOpaqueNamed(t) {
		// pointer to array = row of the element heap
		return sel(v.heap(st, v.elemKey(a.Elem())), p.T)
	}
	return sel(v.heap(st, v.boxKey(t)), p.T)
}

func (v *FnVerifier) storePtr(st *State, p Val, t types.Type, val string) {
	if p.Loc != nil {
		v.storeLoc(st, p.Loc, val)
		return
	}
	if isRefStruct(t) {
		v.storeStruct(st, p.T, t, val)
		return
	}
	if a, ok := t.Underlying().(*types.Array); ok && !isOpaqueNamed(t) {
		k := v.elemKey(a.Elem())
		v.setHeap(st, k, sto(v.heap(st, k), p.T, val))
		return
	}
	k := v.boxKey(t)
	v.setHeap(st, k, sto(v.heap(st, k), p.T, val))
}

// newRef allocates a fresh reference.
func (v *FnVerifier) newRef(st *State, hint string) string {
	a := v.alloc(st)
	r := v.smt.define("ref."+hint, "Int", a)
	st.heaps[allocKey] = v.smt.define("alloc", "Int", "(+ "+a+" 1)")
	return r
}

// materialize turns an interior pointer into a reference to a fresh box holding a snapshot.
func (v *FnVerifier) materialize(st *State, p Val, t types.Type, why string) string {
	if p.Loc == nil {
		return p.T
	}
	v.smt.note("interior pointer passed by value-snapshot (" + why + ")")
	r := v.newRef(st, "snap")
	v.storePtr(st, Val{T: r}, t, v.loadLoc(st, p.Loc))
	return r
}

// havocKeys replaces the listed heap keys by fresh versions (closed w.r.t. the new alloc).
// effectiveMods: the set havocKeys really replaces for ms.
func (v *FnVerifier) effectiveMods(ms *ModSet) *ModSet {
	if _, movesPos := ms.Keys["GH!sp"]; movesPos && v.trackEnd() {
		// whatever moves a read position may also have run into the end of that stream
		if _, ok := ms.Keys[hitEndKey]; !ok {
			ms2 := newModSet()
			ms2.union(ms)
			ms2.add(KeyInfo{Key: hitEndKey, Ghost: "(Array Int Bool)"})
			return ms2
		}
	}
	return ms
}

func (v *FnVerifier) havocKeys(st *State, ms *ModSet) {
	ms = v.effectiveMods(ms)
	all := ms.All
	var keys []string
	for k, ki := range ms.Keys {
		v.ensureKey(ki)
		keys = append(keys, k)
	}
	a := v.alloc(st)
	na := v.smt.fresh("alloc", "Int")
	v.smt.assert("(>= " + na + " " + a + ")")
	if all {
		v.nEpoch++
		st.epoch = v.nEpoch
		v.epochAlloc[st.epoch] = na
		keep := map[string]string{}
		for k, t := range st.heaps {
			// ghost counters of the function under verification itself: no callee can change them
			if strings.HasPrefix(k, "GH!ncalls!") || strings.HasPrefix(k, "GH!lastarg!") || k == "GH!nrecv" {
				keep[k] = t
			}
		}
		st.heaps = keep
		st.heaps[allocKey] = na
		return
	}
	st.heaps[allocKey] = na
	sort.Strings(keys)
	for _, k := range keys {
		if k == allocKey {
			continue
		}
		old := v.heap(st, k)
		n := v.smt.fresh(k, v.reg.sort[k])
		st.heaps[k] = n
		v.assumeClosed(k, n, na)
		if ms.Keys[k].FreshOnly {
			v.frameOld(k, old, n, a, nil)
		}
		if k == "GH!nrecv" {
			// receive counters only grow
			v.smt.assert(fmt.Sprintf("(forall ((c Int)) (! (>= (select %s c) (select %s c)) :pattern ((select %s c))))", n, old, n))
		}
	}
}

// frameOld: objects allocated before (ref < allocPre) other than the listed targets keep their contents.
func (v *FnVerifier) frameOld(key, old, n, allocPre string, except []string) {
	d := v.reg.dims[key]
	isMap := strings.HasPrefix(key, "MD!") || strings.HasPrefix(key, "MV!")
	// ghost arrays indexed by object reference (blob of a byte array, stream contents, …) are framed
	// like field heaps
	isRefGhost := strings.HasPrefix(key, "GH!") && strings.HasPrefix(v.reg.sort[key], "(Array Int ")
	if !(d == 1 || d == 2 || isMap || isRefGhost) {
		return
	}
	conds := []string{"(< r " + allocPre + ")"}
	for _, x := range except {
		conds = append(conds, "(not (= r "+x+"))")
	}
	v.smt.assert(fmt.Sprintf("(forall ((r Int)) (! (=> %s (= (select %s r) (select %s r))) :pattern ((select %s r))))", and(conds...), n, old, n))
}

// KeyInfo carries what is needed to register a heap key that has not been touched yet.
type KeyInfo struct {
	Key   string
	Dims  int
	CellT types.Type
	Map   *types.Map
	Ghost string // sort, for ghost keys
	// FreshOnly: the function only writes this heap at objects it allocated itself
	FreshOnly bool
	// VisitedOf: ghost "visited" set of a map range iterator over this map type
	VisitedOf *types.Map
}

type ModSet struct {
	Keys map[string]KeyInfo
	All  bool
	Why  []string // reasons for All
}

func newModSet() *ModSet { return &ModSet{Keys: map[string]KeyInfo{}} }

func (m *ModSet) add(ki KeyInfo) {
	if old, ok := m.Keys[ki.Key]; ok {
		ki.FreshOnly = ki.FreshOnly && old.FreshOnly
	}
	m.Keys[ki.Key] = ki
}
func (m *ModSet) union(o *ModSet) bool {
	ch := false
	if o.All && !m.All {
		m.All = true
		m.Why = append(m.Why, o.Why...)
		ch = true
	}
	for k, ki := range o.Keys {
		old, ok := m.Keys[k]
		if !ok {
			m.Keys[k] = ki
			ch = true
		} else if old.FreshOnly && !ki.FreshOnly {
			old.FreshOnly = false
			m.Keys[k] = old
			ch = true
		}
	}
	return ch
}

func (v *FnVerifier) ensureKey(ki KeyInfo) {
	switch {
	case ki.VisitedOf != nil:
		if _, ok := v.reg.sort[ki.Key]; !ok {
			v.reg.sort[ki.Key] = "(Array " + v.smt.sortOf(ki.VisitedOf.Key()) + " Bool)"
			v.reg.dims[ki.Key] = -1
		}
	case ki.Map != nil:
		v.mapKeys(ki.Map)
	case ki.Ghost != "":
		if strings.Contains(ki.Ghost, "Tok") {
			v.streamKeys() // declares the token datatype
		}
		if _, ok := v.reg.sort[ki.Key]; !ok {
			v.reg.sort[ki.Key] = ki.Ghost
			v.reg.dims[ki.Key] = -1
		}
	default:
		v.regKey(ki.Key, ki.Dims, ki.CellT, v.smt.sortOf(ki.CellT))
	}
}
