package main

// Calls: builtins, external models, contracts of callees, inlining; returns and ensures.

import (
	"os"
	"strconv"
	"fmt"
	"go/token"
	"go/types"
	"sort"
	"strings"

	"golang.org/x/tools/go/ssa"
)

func (fr *Frame) setResult(res ssa.Value, val Val) {
	if res != nil {
		fr.vals[res] = val
	}
}

func (fr *Frame) execCall(st *State, c *ssa.CallCommon, res ssa.Value, pos token.Pos) {
	fr.execCallInner(st, c, res, pos)
	fr.recordResults(st, c, res)
}

// recordResults: the pointer-like results of the latest call to a tracked function (lastres(F, i)).
func (fr *Frame) recordResults(st *State, c *ssa.CallCommon, res ssa.Value) {
	v := fr.v
	if res == nil || !fr.transparent || v.fc == nil || v.fc.Opts["track"] == "" {
		return
	}
	var callee string
	if c.IsInvoke() {
		callee = c.Method.Name()
	} else if f, ok := c.Value.(*ssa.Function); ok {
		callee = f.Name()
	} else {
		return
	}
	tracked := false
	for _, t := range strings.Fields(v.fc.Opts["track"]) {
		if t == callee {
			tracked = true
		}
	}
	val, have := fr.vals[res]
	if !tracked || !have {
		return
	}
	rs := c.Signature().Results()
	put := func(i int, x Val) {
		if x.Loc != nil || x.T == "" {
			return
		}
		if _, ok := sortIsInt(rs.At(i).Type()); ok {
			v.setHeap(st, v.ghostKey(fmt.Sprintf("lastres!%s!%d", callee, i), "Int"), x.T)
		} else if v.smt.sortOf(rs.At(i).Type()) == "Iface" {
			// error (interface) results: lastres(F, i, error)
			v.setHeap(st, v.ghostKey(fmt.Sprintf("lastres!%s!%d", callee, i), "Iface"), x.T)
		}
	}
	if rs.Len() == 1 {
		put(0, val)
	} else {
		for i := range val.Tuple {
			if i < rs.Len() {
				put(i, val.Tuple[i])
			}
		}
	}
}

func (fr *Frame) execCallInner(st *State, c *ssa.CallCommon, res ssa.Value, pos token.Pos) {
	v := fr.v
	var args []Val
	for _, a := range c.Args {
		args = append(args, fr.val(a))
	}
	fr.siteAssertsCall(st, c, args, pos)
	fr.countCall(st, c)
	if c.IsInvoke() {
		recv := fr.val(c.Value)
		if nt, ok := types.Unalias(c.Value.Type()).(*types.Named); ok && nt.Obj().Pkg() != nil && strings.HasPrefix(nt.Obj().Pkg().Path(), "github.com/tokenized/spynode") && !v.eng.isCallbackIface(c) && recv.T != "" {
			// a method call on a nil value of one of the repository's own interfaces panics
			fr.safetyObl(st, "nil", not(eq(recv.T, "(mk-iface 0 0)")), "method call on a nil "+nt.Obj().Name()+": "+c.Method.Name(), pos)
		}
		if em := v.eng.extInvoke(c); em != nil {
			v.usedExt[em.name] = em.doc
			out := em.apply(fr, st, c, append([]Val{recv}, args...), res)
			fr.setResult(res, out)
			return
		}
		if v.eng.isCallbackIface(c) {
			v.smt.note("invoke " + c.Method.FullName() + ": application callback, assumed to write nothing of the repository's objects")
			fr.freshResult(st, c, res)
			return
		}
		if impls := v.eng.closedImpls(c); impls != nil {
			ms := newModSet()
			v.eng.callMods(c, ms, nil)
			v.smt.note("invoke " + c.Method.FullName() + ": closed-world interface, frame = union of the frames of its " + fmt.Sprint(len(impls)) + " loaded implementations; result unconstrained")
			v.havocKeys(st, ms)
			fr.freshResult(st, c, res)
			return
		}
		fr.havocCall(st, c, res, "interface method "+c.Method.FullName())
		return
	}
	switch f := c.Value.(type) {
	case *ssa.Builtin:
		fr.execBuiltin(st, f, c, args, res, pos)
		return
	case *ssa.Function:
		if em := v.eng.extModel(f); em != nil {
			v.usedExt[em.name] = em.doc
			out := em.apply(fr, st, c, args, res)
			fr.setResult(res, out)
			return
		}
		fc := v.eng.contractOf(f)
		if v.fc != nil && fr.transparent {
			for _, n := range strings.Fields(v.fc.Opts["abstract"]) {
				match := n == f.Name()
				if i := strings.LastIndex(n, "."); i >= 0 && f.Signature.Recv() != nil {
					if nt, ok := types.Unalias(deref(f.Signature.Recv().Type())).(*types.Named); ok {
						match = nt.Obj().Name() == n[:i] && f.Name() == n[i+1:]
					}
				}
				if match {
					// opt abstract: this callee is summarised by its inferred frame only (result unconstrained)
					ms := v.eng.modSetOf(f)
					desc := ""
					if os.Getenv("GOVC_DEBUG_MODS") != "" {
						var ks []string
						for k, ki := range ms.Keys {
							if ki.FreshOnly {
								k += "(fresh)"
							}
							ks = append(ks, k)
						}
						sort.Strings(ks)
						desc = fmt.Sprintf(" all=%v keys=%v", ms.All, ks)
					}
					v.havocked = append(v.havocked, f.String()+" (opt abstract)"+desc)
					v.havocKeys(st, ms)
					fr.freshResult(st, c, res)
					return
				}
			}
		}
		if fc != nil && fc.Inline && v.fc != nil && fr.transparent {
			// opt summary = F: this unit uses F's contract (frame, requires, ensures) instead of inlining it
			for _, n := range strings.Fields(v.fc.Opts["summary"]) {
				if n == f.Name() {
					fr.applyContract(st, f, fc, c, args, res, pos)
					return
				}
			}
		}
		if fc != nil && !fc.Inline {
			fr.applyContract(st, f, fc, c, args, res, pos)
			return
		}
		if f.Blocks != nil && v.eng.inRepo(f) && (fc != nil && fc.Inline || v.eng.inlinable(f)) && fr.depth < 4 {
			fr.inlineCall(st, f, c, args, res)
			return
		}
		if fr.owner != nil && fr.depth < 4 && v.eng.isNewHelper(f) && v.eng.inlinableHelper(f) {
			// a helper extracted since the baseline, loops included: executed as part of this function
			fr.inlineCall(st, f, c, args, res)
			return
		}
		// sound fallback: forget everything the callee may write; result unconstrained
		ms := v.eng.modSetOf(f)
		if ms.All {
			v.havocked = append(v.havocked, f.String()+" (ALL: "+strings.Join(ms.Why, "; ")+")")
		} else {
			v.havocked = append(v.havocked, f.String())
		}
		allocPre := v.alloc(st)
		v.havocKeys(st, ms)
		out := fr.freshResult(st, c, res)
		if res != nil && returnsNewObject(f) {
			// every return of the callee hands back an object it allocated itself: the result is
			// distinct from everything that existed before the call
			v.smt.assert("(>= " + out.T + " " + allocPre + ")")
		}
		return
	}
	fr.havocCall(st, c, res, "dynamic call "+c.Value.Name())
}

var returnsNewMemo = map[*ssa.Function]bool{}

// returnsNewObject: single pointer result, and every return statement returns a heap allocation
// made in the function body itself (constructor shape: return &T{…}).
func returnsNewObject(f *ssa.Function) bool {
	if r, ok := returnsNewMemo[f]; ok {
		return r
	}
	ok := f.Blocks != nil && f.Signature.Results().Len() == 1
	if ok {
		_, isPtr := f.Signature.Results().At(0).Type().Underlying().(*types.Pointer)
		ok = isPtr
	}
	nret := 0
	if ok {
		for _, b := range f.Blocks {
			for _, in := range b.Instrs {
				if ret, isRet := in.(*ssa.Return); isRet {
					nret++
					al, isAlloc := ret.Results[0].(*ssa.Alloc)
					if !isAlloc || !al.Heap {
						ok = false
					}
				}
			}
		}
	}
	ok = ok && nret > 0
	returnsNewMemo[f] = ok
	return ok
}

func (fr *Frame) havocCall(st *State, c *ssa.CallCommon, res ssa.Value, why string) {
	v := fr.v
	v.havocked = append(v.havocked, why)
	ms := newModSet()
	ms.All = true
	v.havocKeys(st, ms)
	fr.freshResult(st, c, res)
}

func (fr *Frame) freshResult(st *State, c *ssa.CallCommon, res ssa.Value) Val {
	v := fr.v
	if res == nil {
		return Val{}
	}
	sig := c.Signature()
	rs := sig.Results()
	mk := func(t types.Type, i int) Val {
		n := v.smt.fresh(fmt.Sprintf("%s.r%d", fr.name(res), i), v.smt.sortOf(t))
		v.smt.assert(v.closedFact(n, t, v.alloc(st), 0))
		return Val{T: n}
	}
	var out Val
	switch rs.Len() {
	case 0:
		out = Val{}
	case 1:
		out = mk(rs.At(0).Type(), 0)
	default:
		for i := 0; i < rs.Len(); i++ {
			out.Tuple = append(out.Tuple, mk(rs.At(i).Type(), i))
		}
	}
	fr.vals[res] = out
	return out
}

func (fr *Frame) execBuiltin(st *State, f *ssa.Builtin, c *ssa.CallCommon, args []Val, res ssa.Value, pos token.Pos) {
	v := fr.v
	argT := func(i int) string { return fr.term(st, c.Args[i]) }
	switch f.Name() {
	case "len", "cap":
		switch c.Args[0].Type().Underlying().(type) {
		case *types.Slice:
			fr.defVal(res, "(s."+f.Name()+" "+argT(0)+")")
		case *types.Basic:
			n := app(v.smt.declareFun("str.len", []string{"Str"}, "Int"), argT(0))
			fr.defVal(res, n)
			v.smt.assert(and("(>= "+fr.vals[res].T+" 0)", "(< "+fr.vals[res].T+" 9223372036854775808)"))
		case *types.Map:
			mt := c.Args[0].Type().Underlying().(*types.Map)
			fr.defVal(res, v.mapLen(st, mt, argT(0)))
			v.smt.assert("(>= " + fr.vals[res].T + " 0)")
			v.smt.note("len(map) is an uninterpreted function (>= 0) of the map's current key set")
		case *types.Chan:
			n := v.smt.fresh("chanlen", "Int")
			v.smt.assert("(>= " + n + " 0)")
			fr.vals[res] = Val{T: n}
		default:
			v.unsupported("len of %s", c.Args[0].Type())
		}
	case "append":
		fr.execAppend(st, c, res)
	case "copy":
		fr.execCopy(st, c, res)
	case "delete":
		m := c.Args[0].Type().Underlying().(*types.Map)
		dk, _ := v.mapKeys(m)
		mr, k := argT(0), argT(1)
		fr.checkGuardedMap(st, c.Args[0], pos)
		v.setHeap(st, dk, sto(v.heap(st, dk), mr, sto(sel(v.heap(st, dk), mr), k, "false")))
	case "print", "println":
	case "ssa:wrapnilchk":
		fr.vals[res] = args[0]
	case "min", "max":
		a, b := argT(0), argT(1)
		op := "<="
		if f.Name() == "max" {
			op = ">="
		}
		fr.defVal(res, ite("("+op+" "+a+" "+b+")", a, b))
	case "close":
		v.smt.note("close(chan) not modelled")
	case "recover":
		fr.defVal(res, "(mk-iface 0 0)")
	default:
		v.unsupported("builtin %s", f.Name())
	}
}

func (fr *Frame) execAppend(st *State, c *ssa.CallCommon, res ssa.Value) {
	v := fr.v
	sT := c.Args[0].Type().Underlying().(*types.Slice)
	el := sT.Elem()
	es := v.smt.sortOf(el)
	k := v.elemKey(el)
	s := fr.term(st, c.Args[0])
	var tArr, tOff, tLen string
	if b, ok := c.Args[1].Type().Underlying().(*types.Basic); ok && b.Info()&types.IsString != 0 {
		// append([]byte, string...)
		str := fr.term(st, c.Args[1])
		tLen = app(v.smt.declareFun("str.len", []string{"Str"}, "Int"), str)
		r := v.newRef(st, "strbytes")
		v.setHeap(st, k, sto(v.heap(st, k), r, app(v.smt.declareFun("str.bytes", []string{"Str"}, "(Array Int Int)"), str)))
		tArr, tOff = r, "0"
	} else {
		t := fr.term(st, c.Args[1])
		tArr, tOff, tLen = "(s.arr "+t+")", "(s.off "+t+")", "(s.len "+t+")"
	}
	E := v.heap(st, k)
	ls := "(s.len " + s + ")"
	newLen := v.smt.define("app.len", "Int", "(+ "+ls+" "+tLen+")")
	inplace := v.smt.define("app.inplace", "Bool", and("(<= "+newLen+" (s.cap "+s+"))", "(not (= (s.arr "+s+") 0))"))
	fresh := v.newRef(st, "app")
	newCap := v.smt.fresh("app.cap", "Int")
	v.smt.assert("(>= " + newCap + " " + newLen + ")")
	rArr := ite(inplace, "(s.arr "+s+")", fresh)
	rOff := ite(inplace, "(s.off "+s+")", "0")
	rCap := ite(inplace, "(s.cap "+s+")", newCap)
	result := v.smt.define("app.res", "Slice", fmt.Sprintf("(mk-slice %s %s %s %s)", rArr, rOff, newLen, rCap))
	// new row contents
	row := v.smt.fresh("app.row", "(Array Int "+es+")")
	srow := sel(E, "(s.arr "+s+")")
	trow := sel(E, tArr)
	soff := "(s.off " + s + ")"
	j := "j"
	inplaceVal := ite(and("(<= (+ "+soff+" "+ls+") "+j+")", "(< "+j+" (+ "+soff+" "+newLen+"))"),
		sel(trow, "(ix "+tOff+" (- "+j+" (+ "+soff+" "+ls+")))"), sel(srow, j))
	freshVal := ite(and("(<= 0 "+j+")", "(< "+j+" "+ls+")"), sel(srow, "(ix "+soff+" "+j+")"),
		ite(and("(<= "+ls+" "+j+")", "(< "+j+" "+newLen+")"), sel(trow, "(ix "+tOff+" (- "+j+" "+ls+"))"), v.smt.zeroOf(el)))
	v.smt.assert(fmt.Sprintf("(forall ((j Int)) (! (= (select %s j) %s) :pattern ((select %s j))))", row, ite(inplace, inplaceVal, freshVal), row))
	// ground instance for the first appended element (a consequence of the axiom above; gives E-matching a term to work with)
	v.smt.assert(implies("(> "+tLen+" 0)", eq(sel(row, "(ix (s.off "+result+") "+ls+")"), sel(trow, "(ix "+tOff+" 0)"))))
	v.setHeap(st, k, sto(E, "(s.arr "+result+")", row))
	// prefix preservation stated over slice indices of the old and the new heap (consequence of the row axiom;
	// triggers on either side so that facts about s[c] carry over to result[c] and back)
	E2 := v.heap(st, k)
	newEl := sel(sel(E2, "(s.arr "+result+")"), "(ix (s.off "+result+") c)")
	oldEl := sel(sel(E, "(s.arr "+s+")"), "(ix (s.off "+s+") c)")
	v.smt.assert(fmt.Sprintf("(forall ((c Int)) (! (=> (and (<= 0 c) (< c %s)) (= %s %s)) :pattern (%s) :pattern (%s)))", ls, newEl, oldEl, newEl, oldEl))
	v.smt.assert(implies("(> "+tLen+" 0)", eq(sel(sel(E2, "(s.arr "+result+")"), "(ix (s.off "+result+") "+ls+")"), sel(trow, "(ix "+tOff+" 0)"))))
	// appended part, both directions
	newEl2 := sel(sel(E2, "(s.arr "+result+")"), "(ix (s.off "+result+") (+ "+ls+" d))")
	srcEl := sel(trow, "(ix "+tOff+" d)")
	v.smt.assert(fmt.Sprintf("(forall ((d Int)) (! (=> (and (<= 0 d) (< d %s)) (= %s %s)) :pattern (%s)))", tLen, newEl2, srcEl, srcEl))
	newEl3 := sel(sel(E2, "(s.arr "+result+")"), "(ix (s.off "+result+") c)")
	v.smt.assert(fmt.Sprintf("(forall ((c Int)) (! (=> (and (<= %s c) (< c %s)) (= %s %s)) :pattern (%s)))", ls, newLen, newEl3, sel(trow, "(ix "+tOff+" (- c "+ls+"))"), newEl3))
	fr.vals[res] = Val{T: result}
}

func (fr *Frame) execCopy(st *State, c *ssa.CallCommon, res ssa.Value) {
	v := fr.v
	// copy(h[:], b) into the bytes of a named array (Hash20, Hash32): when b covers the whole array
	// the array value becomes the one the blob of b encodes; otherwise it is unspecified
	if sl, ok := c.Args[0].(*ssa.Slice); ok && sl.Low == nil && sl.High == nil {
		if pt, ok := sl.X.Type().Underlying().(*types.Pointer); ok && isOpaqueNamed(pt.Elem()) {
			if arr, ok := pt.Elem().Underlying().(*types.Array); ok {
				if _, isSlice := c.Args[1].Type().Underlying().(*types.Slice); isSlice {
					_, fromBlob := v.opaqueBlobFuns(pt.Elem(), arr.Len())
					src := fr.term(st, c.Args[1])
					blob := v.sliceBlob(st, src)
					nv := v.smt.fresh("copy.arr", v.smt.sortOf(pt.Elem()))
					v.smt.assert(implies(eq("(s.len "+src+")", fmt.Sprint(arr.Len())), eq(nv, app(fromBlob, blob))))
					base := fr.val(sl.X)
					if base.Loc != nil {
						v.storeLoc(st, base.Loc, nv)
					} else {
						v.storePtr(st, base, pt.Elem(), nv)
					}
					v.smt.note("copy into the bytes of a named array: the value is the one encoded by the source bytes when the lengths match")
					if res != nil {
						fr.defVal(res, ite("(< (s.len "+src+") "+fmt.Sprint(arr.Len())+")", "(s.len "+src+")", fmt.Sprint(arr.Len())))
					}
					return
				}
			}
		}
	}
	dT, ok := c.Args[0].Type().Underlying().(*types.Slice)
	if !ok {
		v.unsupported("copy to %s", c.Args[0].Type())
	}
	el := dT.Elem()
	es := v.smt.sortOf(el)
	k := v.elemKey(el)
	d := fr.term(st, c.Args[0])
	var sArr, sOff, sLen string
	E := v.heap(st, k)
	if b, ok := c.Args[1].Type().Underlying().(*types.Basic); ok && b.Info()&types.IsString != 0 {
		str := fr.term(st, c.Args[1])
		sLen = app(v.smt.declareFun("str.len", []string{"Str"}, "Int"), str)
		r := v.newRef(st, "strbytes")
		E = sto(E, r, app(v.smt.declareFun("str.bytes", []string{"Str"}, "(Array Int Int)"), str))
		sArr, sOff = r, "0"
	} else {
		s := fr.term(st, c.Args[1])
		sArr, sOff, sLen = "(s.arr "+s+")", "(s.off "+s+")", "(s.len "+s+")"
	}
	n := v.smt.define("copy.n", "Int", ite("(<= (s.len "+d+") "+sLen+")", "(s.len "+d+")", sLen))
	row := v.smt.fresh("copy.row", "(Array Int "+es+")")
	drow := sel(E, "(s.arr "+d+")")
	srow := sel(E, sArr)
	doff := "(s.off " + d + ")"
	val := ite(and("(<= "+doff+" j)", "(< j (+ "+doff+" "+n+"))"), sel(srow, "(ix "+sOff+" (- j "+doff+"))"), sel(drow, "j"))
	v.smt.assert(fmt.Sprintf("(forall ((j Int)) (! (= (select %s j) %s) :pattern ((select %s j))))", row, val, row))
	v.setHeap(st, k, ite("(> "+n+" 0)", sto(E, "(s.arr "+d+")", row), E))
	if res != nil {
		fr.vals[res] = Val{T: n}
	}
}

// ---- contracts at call sites ----

func (e *Engine) contractOf(f *ssa.Function) *FuncContract {
	if f.Pkg == nil {
		return nil
	}
	return e.cs.Funcs[fkey(f.Pkg.Pkg.Path(), contractName(f))]
}

func contractName(f *ssa.Function) string {
	if recv := f.Signature.Recv(); recv != nil {
		t := recv.Type()
		star := ""
		if p, ok := t.(*types.Pointer); ok {
			t = p.Elem()
			star = "*"
		}
		if n, ok := types.Unalias(t).(*types.Named); ok {
			return "(" + star + n.Obj().Name() + ")." + f.Name()
		}
	}
	return f.Name()
}

func (e *Engine) inRepo(f *ssa.Function) bool {
	return f.Pkg != nil && strings.HasPrefix(f.Pkg.Pkg.Path(), "github.com/tokenized/spynode")
}

// inlinableHelper: like inlinable, loops allowed (their invariants come from the caller's contract).
func (e *Engine) inlinableHelper(f *ssa.Function) bool {
	if f.Blocks == nil || len(f.Blocks) > 150 {
		return false
	}
	for _, b := range f.Blocks {
		for _, in := range b.Instrs {
			switch in.(type) {
			case *ssa.Go, *ssa.MakeClosure:
				return false
			}
		}
	}
	return true
}

// inlinable: small, loop-free helper in the repository.
func (e *Engine) inlinable(f *ssa.Function) bool {
	if f.Blocks == nil || len(f.Blocks) > 150 {
		return false
	}
	for _, b := range f.Blocks {
		for _, s := range b.Succs {
			if s.Dominates(b) {
				return false
			}
		}
		for _, in := range b.Instrs {
			switch in.(type) {
			case *ssa.Go, *ssa.MakeClosure:
				return false
			}
		}
	}
	return true
}

// bindArgs gives callee parameter values, snapshotting interior pointers (copy-in).
func (fr *Frame) bindArgs(st *State, f *ssa.Function, c *ssa.CallCommon, args []Val) ([]Val, []int) {
	v := fr.v
	out := make([]Val, len(args))
	var locs []int
	for i, a := range args {
		if a.Loc != nil {
			pt := deref(c.Args[i].Type())
			out[i] = Val{T: v.materialize(st, a, pt, "argument of "+f.Name())}
			locs = append(locs, i)
		} else {
			out[i] = a
		}
	}
	return out, locs
}

func (fr *Frame) copyOut(st *State, f *ssa.Function, c *ssa.CallCommon, args, bound []Val, locs []int, ms *ModSet) {
	v := fr.v
	for _, i := range locs {
		pt := deref(c.Args[i].Type())
		probe := newModSet()
		addPointeeKeys(probe, pt)
		touched := ms.All
		for k := range probe.Keys {
			if _, ok := ms.Keys[k]; ok {
				touched = true
			}
		}
		if touched {
			v.storeLoc(st, args[i].Loc, v.loadPtr(st, bound[i], pt))
		}
	}
}

func (fr *Frame) calleeEnv(st, old *State, f *ssa.Function, fc *FuncContract, bound []Val, results []Val) *Env {
	v := fr.v
	// a pseudo-frame carrying the callee's parameters
	cf := &Frame{v: v, fn: f, fc: fc, vals: map[ssa.Value]Val{}, params: map[string]Val{}}
	for i, p := range f.Params {
		cf.vals[p] = bound[i]
		cf.params[p.Name()] = bound[i]
	}
	var extra []string
	env := &Env{v: v, fr: cf, st: st, old: old, bound: map[string]specVal{}, lets: map[string]*Node{}, extra: &extra, pkg: f.Pkg.Pkg}
	for _, l := range fc.Lets {
		env.lets[l.Name] = l.Body
	}
	rs := f.Signature.Results()
	for i := 0; i < rs.Len(); i++ {
		env.resT = append(env.resT, rs.At(i).Type())
		env.resName = append(env.resName, rs.At(i).Name())
	}
	env.results = results
	return env
}

func (fr *Frame) applyContract(st *State, f *ssa.Function, fc *FuncContract, c *ssa.CallCommon, args []Val, res ssa.Value, pos token.Pos) {
	v := fr.v
	v.usedContracts[f.String()] = true
	bound, locs := fr.bindArgs(st, f, c, args)
	// requires
	for k, rq := range fc.Requires {
		env := fr.calleeEnv(st, nil, f, fc, bound, nil)
		g, extra := env.boolTerm(rq.Expr)
		o := v.addObl(st, "requires", fmt.Sprintf("%s.%s", fnShort(f), clLabel(rq, k)), g, "precondition of "+fnShort(f)+": "+rq.Text, pickProps(rq, fr.propsOf()), pos)
		o.Extra = extra
		o.Group = rq.Group
		v.smt.assertG(rq.Group, implies(st.reach, g))
	}
	// an `atomic <mutex>` operation takes the mutex of its receiver itself: the caller must not hold
	// it (the callee is verified from "mutex free on entry" and proves "free again on return")
	atomicKey, atomicRecv := "", ""
	if fc.Atomic != "" && fc.Opts["returns_locked"] == "" && f.Signature.Recv() != nil && len(args) > 0 && args[0].Loc == nil {
		rt := deref(f.Signature.Recv().Type())
		if _, sT := namedStruct(rt); sT != nil && isRefStruct(rt) {
			for i := 0; i < sT.NumFields(); i++ {
				if sT.Field(i).Name() == fc.Atomic {
					atomicKey = v.ghostKey("held!"+fieldKeyName(rt, sT, i), "(Array Int Bool)")
					atomicRecv = args[0].T
				}
			}
		}
	}
	if atomicKey != "" && !v.noMonitor() {
		v.addObl(st, "monitor", fmt.Sprintf("free.%s.%s", fnShort(f), fc.Atomic), not(sel(v.heap(st, atomicKey), atomicRecv)), "the mutex an atomic operation takes is not held by the caller", fr.propsOf(), pos)
	}
	before := st.clone()
	ms := v.eng.modSetOf(f)
	if ms.All {
		v.havocked = append(v.havocked, "contract call "+f.String()+" (ALL: "+strings.Join(ms.Why, "; ")+")")
	}
	v.havocKeys(st, ms)
	if atomicKey != "" {
		v.smt.assert(implies(st.reach, not(sel(v.heap(st, atomicKey), atomicRecv))))
	}
	// results
	var results []Val
	rs := f.Signature.Results()
	for i := 0; i < rs.Len(); i++ {
		n := v.smt.fresh(fmt.Sprintf("%scall.%s.r%d", fr.prefix, f.Name(), i), v.smt.sortOf(rs.At(i).Type()))
		v.smt.assert(v.closedFact(n, rs.At(i).Type(), v.alloc(st), 0))
		results = append(results, Val{T: n})
	}
	for _, en := range append(append([]*Clause(nil), fc.Ensures...), fc.Assumed...) {
		env := fr.calleeEnv(st, before, f, fc, bound, results)
		g, extra, ok := func() (g string, extra []string, ok bool) {
			defer func() {
				if r := recover(); r != nil {
					if _, isSpec := r.(specErr); isSpec {
						ok = false // the clause talks about the callee's locals: of no use to a caller
						return
					}
					panic(r)
				}
			}()
			g, extra = env.boolTerm(en.Expr)
			return g, extra, true
		}()
		if !ok {
			continue
		}
		for _, x := range extra {
			v.smt.assertG(en.Group, x)
		}
		v.smt.assertG(en.Group, implies(st.reach, g))
	}
	fr.copyOut(st, f, c, args, bound, locs, ms)
	if res != nil {
		switch len(results) {
		case 0:
		case 1:
			fr.vals[res] = results[0]
		default:
			fr.vals[res] = Val{Tuple: results}
		}
	}
}

var inlineCounter int

func (fr *Frame) inlineCall(st *State, f *ssa.Function, c *ssa.CallCommon, args []Val, res ssa.Value) {
	v := fr.v
	v.inlined[f.String()] = true
	bound, locs := fr.bindArgs(st, f, c, args)
	inlineCounter++
	sub := &Frame{v: v, fn: f, fc: v.eng.contractOf(f), vals: map[ssa.Value]Val{}, prefix: fmt.Sprintf("%s%s%d.", fr.prefix, sanitize(f.Name()), inlineCounter),
		depth: fr.depth + 1, outSt: map[*ssa.BasicBlock]*State{}, edges: map[[2]int]string{}, params: map[string]Val{}, parent: fr}
	saved := st.defers
	st.defers = nil
	sub.entry = st.clone()
	if sub.fc != nil {
		sub.owner = sub
	}
	if fr.owner != nil && sub.fc == nil && v.eng.isNewHelper(f) {
		sub.transparent = fr.transparent
		sub.owner = fr.owner
		sub.entry = fr.entry // old() keeps meaning the entry of the function whose contract speaks
		if call, ok := res.(*ssa.Call); ok {
			if base, ok := fr.callBase[call]; ok {
				sub.loopBase = base
			}
		}
		v.smt.note("helper " + f.Name() + " (not in the baseline, no contract) is executed as part of " + v.fn.Name())
	}
	sub.run(st.clone(), bound)
	if len(sub.exits) == 0 {
		// callee never returns (panics): path ends
		v.smt.assert(not(st.reach))
		fr.freshResult(st, c, res)
		st.defers = saved
		return
	}
	merged, results := fr.mergeExits(sub, f)
	*st = *merged
	st.defers = saved
	ms := v.eng.modSetOf(f)
	fr.copyOut(st, f, c, args, bound, locs, ms)
	if res != nil {
		switch len(results) {
		case 0:
		case 1:
			fr.vals[res] = results[0]
		default:
			fr.vals[res] = Val{Tuple: results}
		}
	}
}

func (fr *Frame) mergeExits(sub *Frame, f *ssa.Function) (*State, []Val) {
	v := fr.v
	exits := sub.exits
	if len(exits) == 1 {
		return exits[0].st, exits[0].results
	}
	st := exits[0].st.clone()
	var conds []string
	for _, e := range exits {
		conds = append(conds, e.st.reach)
	}
	st.reach = v.smt.define(sub.prefix+"ret.reach", "Bool", or(conds...))
	sameEpoch := true
	for _, e := range exits[1:] {
		if e.st.epoch != exits[0].st.epoch {
			sameEpoch = false
		}
	}
	keys := map[string]bool{allocKey: true}
	for _, e := range exits {
		for k := range e.st.heaps {
			keys[k] = true
		}
	}
	if !sameEpoch {
		for k := range v.reg.sort {
			keys[k] = true
		}
		v.nEpoch++
		st.epoch = v.nEpoch
		na := v.smt.fresh("alloc", "Int")
		v.epochAlloc[st.epoch] = na
		for _, e := range exits {
			v.smt.assert(implies(e.st.reach, "(>= "+na+" "+v.alloc(e.st)+")"))
		}
	}
	var ks []string
	for k := range keys {
		ks = append(ks, k)
	}
	sort.Strings(ks)
	for _, k := range ks {
		var terms []string
		same := true
		for _, e := range exits {
			var t string
			if k == allocKey {
				t = v.alloc(e.st)
			} else {
				t = v.heap(e.st, k)
			}
			terms = append(terms, t)
			if t != terms[0] {
				same = false
			}
		}
		if same {
			st.heaps[k] = terms[0]
			continue
		}
		t := terms[len(terms)-1]
		for i := len(terms) - 2; i >= 0; i-- {
			t = ite(exits[i].st.reach, terms[i], t)
		}
		sortS := "Int"
		if k != allocKey {
			sortS = v.reg.sort[k]
		}
		st.heaps[k] = v.smt.define(k, sortS, t)
	}
	for _, e := range exits {
		for k := range e.st.relock {
			st.relock[k] = true
		}
	}
	rs := f.Signature.Results()
	var results []Val
	for i := 0; i < rs.Len(); i++ {
		t := exits[len(exits)-1].results[i].T
		for j := len(exits) - 2; j >= 0; j-- {
			t = ite(exits[j].st.reach, exits[j].results[i].T, t)
		}
		results = append(results, Val{T: v.smt.define(fmt.Sprintf("%sret%d", sub.prefix, i), v.smt.sortOf(rs.At(i).Type()), t)})
	}
	return st, results
}

// ---- ensures at top-level returns ----

func (v *FnVerifier) checkEnsures(fr *Frame, st *State, res []Val, pos token.Pos, blk *ssa.BasicBlock) {
	if v.fc == nil {
		return
	}
	v.siteCount["return"]++
	retNo := v.siteCount["return"]
	rs := fr.fn.Signature.Results()
	for k, en := range v.fc.Ensures {
		if en.AfterLoop > 0 {
			// only the returns reached through that loop (the names of its region are in scope there)
			through, own := false, false
			for _, li := range fr.loops {
				if li.ordinal == en.AfterLoop-1 {
					own = true
					if li.header.Dominates(blk) {
						through = true
					}
				}
			}
			if !own && retNo == 1 {
				v.errs = append(v.errs, fmt.Sprintf("ensures %s afterloop %d: that loop is not a loop of the function itself any more", en.Label, en.AfterLoop-1))
			}
			if !through {
				continue
			}
		}
		env := fr.specEnv(st, nil)
		for i := 0; i < rs.Len(); i++ {
			env.resT = append(env.resT, rs.At(i).Type())
			env.resName = append(env.resName, rs.At(i).Name())
		}
		env.results = res
		env.retBlock = blk
		g, extra := env.boolTerm(en.Expr)
		if sp := v.fc.Splits[en.Label]; sp != nil && en.Label != "" {
			if t, ok := env.tryEval(sp.Expr); ok {
				for c := sp.Lo; c < sp.Hi; c++ {
					st2 := st.clone()
					st2.reach = and(st.reach, eq(t, num(int64(c))))
					o := v.addObl(st2, "ensures", fmt.Sprintf("%s@ret%d.case%d", en.Label, retNo, c), g, en.Text+fmt.Sprintf("   [case %s == %d]", sp.Expr, c), pickProps(en, v.fc.Serves), pos)
					o.Extra = extra
					o.Group = en.Group
				}
				st2 := st.clone()
				st2.reach = and(st.reach, not(and("(<= "+num(int64(sp.Lo))+" "+t+")", "(< "+t+" "+num(int64(sp.Hi))+")")))
				o := v.addObl(st2, "ensures", fmt.Sprintf("%s@ret%d.rest", en.Label, retNo), g, en.Text+"   [remaining cases]", pickProps(en, v.fc.Serves), pos)
				o.Extra = extra
				o.Group = en.Group
				continue
			}
		}
		o := v.addObl(st, "ensures", fmt.Sprintf("%s@ret%d", clLabel(en, k), retNo), g, en.Text, pickProps(en, v.fc.Serves), pos)
		o.Extra = extra
		o.Group = en.Group
	}
	// reachability of this return (vacuity guard)
	if v.fc.Opts["partial"] == "" { // "partial": the precondition deliberately excludes some paths
		o := v.addObl(st, "cover", fmt.Sprintf("ret%d", retNo), "false", "return is reachable under the precondition", v.fc.Serves, pos)
		o.Cover = true
	}
	// monitor: no lock held on return
	for hk := range v.heldKeys {
		if v.noMonitor() {
			break
		}
		recv := v.recvTerm(fr)
		if recv == "" {
			continue
		}
		if v.fc.Opts["returns_locked"] != "" {
			continue
		}
		if rt := fr.fn.Signature.Recv(); rt != nil {
			if _, sT := namedStruct(deref(rt.Type())); sT != nil {
				// only the mutexes of the receiver's own type are indexed by the receiver
				if !strings.HasPrefix(hk, "GH!held!"+strings.TrimSuffix(fieldKeyName(deref(rt.Type()), sT, 0), sT.Field(0).Name())) {
					continue
				}
			}
		}
		base := v.entry
		heldBefore := sel(v.heap(base, hk), recv)
		v.addObl(st, "monitor", fmt.Sprintf("unlocked@ret%d", retNo), eq(sel(v.heap(st, hk), recv), heldBefore), "lock state on return equals lock state on entry", v.fc.Serves, pos)
	}
}

func (v *FnVerifier) recvTerm(fr *Frame) string {
	if fr.fn.Signature.Recv() == nil || len(fr.fn.Params) == 0 {
		return ""
	}
	val := fr.vals[fr.fn.Params[0]]
	return val.T
}

// ---- monitor rule: guarded fields ----

func (v *FnVerifier) heldKey(mutexFieldKey string) string {
	k := v.ghostKey("held!"+mutexFieldKey, "(Array Int Bool)")
	v.heldKeys[k] = true
	return k
}

// guardedBy returns the held-key guarding heap key k for the receiver type of the function under verification.
func (v *FnVerifier) guardedBy(key string) (string, bool) {
	g, ok := v.guards[key]
	return g, ok
}

func (fr *Frame) checkGuarded(st *State, p Val, pos token.Pos, what string) {
	v := fr.v
	if p.Loc == nil || len(v.guards) == 0 || v.noMonitor() {
		return
	}
	hk, ok := v.guardedBy(p.Loc.key)
	if !ok {
		return
	}
	recv := v.recvTerm(v.top)
	if recv == "" {
		return
	}
	v.siteCount["guard"]++
	v.addObl(st, "monitor", fmt.Sprintf("guarded.%s#%d", strings.TrimPrefix(p.Loc.key, "F!"), v.siteCount["guard"]),
		sel(v.heap(st, hk), recv), what+" of guarded field "+p.Loc.key+" with the mutex held", nil, pos)
}

// checkFrozen: a wire message that was handed to TransmitMessage belongs to the connection's
// outgoing queue (the queue holds the pointer, the sender goroutine serialises it later); a
// direct field write to such an object changes what is sent. Generated only in functions that
// transmit messages, for stores to fields of wire.Msg* objects.
func (fr *Frame) checkFrozen(st *State, x *ssa.Store) {
	v := fr.v
	fa, ok := x.Addr.(*ssa.FieldAddr)
	if !ok {
		return
	}
	nt, sT := namedStruct(deref(fa.X.Type()))
	if nt == nil || sT == nil || nt.Obj().Pkg() == nil || !strings.HasSuffix(nt.Obj().Pkg().Path(), "/wire") || !strings.HasPrefix(nt.Obj().Name(), "Msg") {
		return
	}
	if _, ok := v.eng.modSetOf(v.top.fn).Keys["GH!transmitted"]; !ok {
		return
	}
	k := v.ghostKey("transmitted", "(Array Int Bool)")
	v.siteCount["frozen"]++
	v.addObl(st, "monitor", fmt.Sprintf("frozen.%s.%s#%d", nt.Obj().Name(), sT.Field(fa.Field).Name(), v.siteCount["frozen"]),
		"(not "+sel(v.heap(st, k), fr.term(st, fa.X))+")", "write to a field of a message that was already handed to TransmitMessage", nil, x.Pos())
}

func (fr *Frame) checkGuardedMap(st *State, m ssa.Value, pos token.Pos) {
	// maps are reached through guarded fields; the field load is what is checked
}

// ---- site assertions (G obligations) ----

func (fr *Frame) siteAssertsCall(st *State, c *ssa.CallCommon, args []Val, pos token.Pos) {
	v := fr.v
	if v.fc == nil || !fr.transparent || len(v.fc.Asserts) == 0 {
		return
	}
	var callee string
	if c.IsInvoke() {
		callee = c.Method.Name()
	} else if f, ok := c.Value.(*ssa.Function); ok {
		callee = f.Name()
	} else {
		return
	}
	for _, as := range v.fc.Asserts {
		w := strings.Fields(as.Site)
		if !(len(w) == 2 || len(w) == 4 && w[2] == "loop") || w[0] != "call" {
			continue
		}
		if len(w) == 4 {
			// call F loop N: only the call sites inside loop N
			n, err := strconv.Atoi(w[3])
			inside := false
			for f := fr; f != nil; f = f.parent {
				for _, li := range f.loops {
					if err == nil && li.ordinal == n && li.inLoop[f.curBlock] {
						inside = true
					}
				}
				if !f.transparent || f.top {
					break
				}
			}
			if !inside {
				continue
			}
		}
		want, field := w[1], ""
		if i := strings.Index(want, "("); i >= 0 && strings.HasSuffix(want, ")") {
			field = want[i+1 : len(want)-1]
			want = want[:i]
		}
		if i := strings.LastIndex(want, "."); i >= 0 {
			// call T.Method: the callee's receiver (or interface) type is named T
			rt := ""
			if c.IsInvoke() {
				if n, ok := types.Unalias(c.Value.Type()).(*types.Named); ok {
					rt = n.Obj().Name()
				}
			} else if f, ok := c.Value.(*ssa.Function); ok && f.Signature.Recv() != nil {
				if n, ok := types.Unalias(deref(f.Signature.Recv().Type())).(*types.Named); ok {
					rt = n.Obj().Name()
				}
			}
			if rt != want[:i] {
				continue
			}
			want = want[i+1:]
		}
		if want != callee {
			continue
		}
		if field != "" {
			// the receiver must be the address of the named field
			if len(c.Args) == 0 {
				continue
			}
			fa, ok := c.Args[0].(*ssa.FieldAddr)
			if !ok {
				continue
			}
			_, sT := namedStruct(deref(fa.X.Type()))
			if sT == nil || sT.Field(fa.Field).Name() != field {
				continue
			}
		}
		env := fr.specEnv(st, nil)
		env.retBlock = fr.curBlock
		env.atSite = true
		all := args
		if c.IsInvoke() {
			all = append([]Val{fr.val(c.Value)}, args...)
		}
		for i, a := range all {
			var t types.Type
			if c.IsInvoke() {
				if i == 0 {
					t = c.Value.Type()
				} else {
					t = c.Args[i-1].Type()
				}
			} else {
				t = c.Args[i].Type()
			}
			if a.Loc != nil {
				env.args = append(env.args, specVal{t: v.materialize(st, a, deref(t), "site assertion"), typ: t, st: st})
			} else {
				env.args = append(env.args, specVal{t: a.T, typ: t, st: st})
			}
		}
		g, extra := env.boolTerm(as.Cl.Expr)
		v.siteCount["assert."+as.Label]++
		o := v.addObl(st, "assert", fmt.Sprintf("%s#%d", as.Label, v.siteCount["assert."+as.Label]), g, as.Cl.Text, pickProps(as.Cl, v.fc.Serves), pos)
		o.Extra = extra
		o.Group = as.Cl.Group
		v.siteCover(st, o)
		v.anteCovers(st, env, o, as.Cl.Expr, "")
		v.assertHits[as.Label]++
	}
}

func (fr *Frame) siteAsserts(st *State, kind string, addr ssa.Value, args []Val, pos token.Pos) {
	v := fr.v
	if v.fc == nil || !fr.transparent || len(v.fc.Asserts) == 0 {
		return
	}
	fa, ok := addr.(*ssa.FieldAddr)
	var elemIdx, elemVal *specVal
	if ia, isElem := addr.(*ssa.IndexAddr); isElem && kind == "store" && len(args) == 1 {
		// x.F[i] = v : "at elemstore F", with idx and v bound
		if ld, isLoad := ia.X.(*ssa.UnOp); isLoad && ld.Op == token.MUL {
			if fa2, ok2 := ld.X.(*ssa.FieldAddr); ok2 {
				if sl, isSlice := ia.X.Type().Underlying().(*types.Slice); isSlice {
					fa, ok, kind = fa2, true, "elemstore"
					elemIdx = &specVal{t: fr.term(st, ia.Index), typ: types.Typ[types.Int], st: st}
					elemVal = &specVal{t: args[0].T, typ: sl.Elem(), st: st}
				}
			}
		}
	}
	if !ok {
		return
	}
	_, sT := namedStruct(deref(fa.X.Type()))
	if sT == nil {
		return
	}
	fname := sT.Field(fa.Field).Name()
	for _, as := range v.fc.Asserts {
		w := strings.Fields(as.Site)
		if !(len(w) == 2 || len(w) == 4 && w[2] == "loop") || w[0] != kind || w[1] != fname {
			continue
		}
		if len(w) == 4 {
			n, err := strconv.Atoi(w[3])
			inside := false
			for f := fr; f != nil; f = f.parent {
				for _, li := range f.loops {
					if err == nil && li.ordinal == n && li.inLoop[f.curBlock] {
						inside = true
					}
				}
				if !f.transparent || f.top {
					break
				}
			}
			if !inside {
				continue
			}
		}
		env := fr.specEnv(st, nil)
		env.retBlock = fr.curBlock
		env.atSite = true
		if elemIdx != nil {
			env = env.bind("idx", *elemIdx).bind("v", *elemVal)
		} else if kind == "store" && len(args) == 2 {
			// field store: v = the value written, prev = the value it replaces
			ft := sT.Field(fa.Field).Type()
			env = env.bind("v", specVal{t: args[0].T, typ: ft, st: st}).bind("prev", specVal{t: args[1].T, typ: ft, st: st})
		}
		g, extra := env.boolTerm(as.Cl.Expr)
		v.siteCount["assert."+as.Label]++
		o := v.addObl(st, "assert", fmt.Sprintf("%s#%d", as.Label, v.siteCount["assert."+as.Label]), g, as.Cl.Text, pickProps(as.Cl, v.fc.Serves), pos)
		o.Extra = extra
		o.Group = as.Cl.Group
		v.siteCover(st, o)
		v.anteCovers(st, env, o, as.Cl.Expr, "")
		v.assertHits[as.Label]++
	}
}

// ---- not yet modelled ----

type mapIter struct {
	m       string
	mt      *types.Map
	visited string // ghost key
	count   string // ghost key: number of keys produced
	dom0    string
}

func (fr *Frame) execRange(st *State, x *ssa.Range) {
	v := fr.v
	mt, ok := x.X.Type().Underlying().(*types.Map)
	if !ok {
		v.unsupported("range over %s", x.X.Type())
	}
	dk, _ := v.mapKeys(mt)
	m := fr.term(st, x.X)
	ks := v.smt.sortOf(mt.Key())
	ki := visitedKey(x, mt)
	v.ensureKey(ki)
	vk := ki.Key
	v.setHeap(st, vk, fmt.Sprintf("((as const (Array %s Bool)) false)", ks))
	dom0 := v.smt.define("range.dom0", "(Array "+ks+" Bool)", ite("(= "+m+" 0)", fmt.Sprintf("((as const (Array %s Bool)) false)", ks), sel(v.heap(st, dk), m)))
	ck := visitCountKey(x)
	v.ensureKey(ck)
	v.setHeap(st, ck.Key, "0")
	fr.vals[x] = Val{Iter: &mapIter{m: m, mt: mt, visited: vk, dom0: dom0, count: ck.Key}}
}

func (fr *Frame) execNext(st *State, x *ssa.Next) {
	v := fr.v
	it := fr.val(x.Iter).Iter
	if it == nil {
		v.unsupported("next on non-map iterator")
	}
	dk, vk := v.mapKeys(it.mt)
	ks := v.smt.sortOf(it.mt.Key())
	vis := v.heap(st, it.visited)
	curDom := sel(v.heap(st, dk), it.m)
	ok := v.smt.fresh(fr.name(x)+".ok", "Bool")
	key := v.smt.fresh(fr.name(x)+".k", ks)
	// ok => key is an unvisited key of the entry-time domain still present
	v.smt.assert(implies(ok, and(sel(it.dom0, key), not(sel(vis, key)), sel(curDom, key))))
	// !ok => every key of the entry-time domain still present has been visited
	v.smt.assert(implies(not(ok), fmt.Sprintf("(forall ((k %s)) (=> (and (select %s k) (select %s k)) (select %s k)))", ks, it.dom0, curDom, vis)))
	val := v.smt.define(fr.name(x)+".v", v.smt.sortOf(it.mt.Elem()), sel(sel(v.heap(st, vk), it.m), key))
	v.smt.assert(v.closedFact(val, it.mt.Elem(), v.alloc(st), 0))
	v.setHeap(st, it.visited, ite(ok, sto(vis, key, "true"), vis))
	if it.count != "" {
		n := v.heap(st, it.count)
		v.setHeap(st, it.count, ite(ok, "(+ "+n+" 1)", n))
	}
	fr.vals[x] = Val{Tuple: []Val{{T: ok}, {T: key}, {T: val}}}
}

// Channels: a send has no effect on the modelled heap (the receiver runs in another goroutine);
// a select is a nondeterministic choice among its cases (default only when non-blocking).
// chanMsgInv: the message invariant declared (`sent`) for the element type *T of a channel is
// checked where a value is sent and assumed where one is received.
func (fr *Frame) chanMsgInv(st *State, elem types.Type, val string, send bool, pos token.Pos) {
	v := fr.v
	pt, ok := elem.Underlying().(*types.Pointer)
	if !ok {
		return
	}
	n, ok := types.Unalias(pt.Elem()).(*types.Named)
	if !ok || n.Obj().Pkg() == nil {
		return
	}
	tc := v.eng.cs.Types[fkey(n.Obj().Pkg().Path(), n.Obj().Name())]
	if tc == nil || tc.Sent == nil {
		return
	}
	env := fr.specEnv(st, nil)
	env.retBlock = fr.curBlock
	env.atSite = true
	env = env.bind("v", specVal{t: val, typ: elem, st: st})
	g, extra := env.boolTerm(tc.Sent.Expr)
	if send {
		if fr.transparent {
			o := v.addObl(st, "chanmsg", n.Obj().Name(), g, "sent "+tc.Sent.Text, fr.propsOf(), pos)
			o.Extra = extra
		}
		return
	}
	v.smt.assert(implies(st.reach, g))
	v.smt.note("message invariant of *" + n.Obj().Name() + " assumed at a channel receive (asserted at the send sites under contract)")
}

func (fr *Frame) execSend(st *State, x *ssa.Send) {
	et := x.Chan.Type().Underlying().(*types.Chan).Elem()
	fr.chanMsgInv(st, et, fr.term(st, x.X), true, x.Pos())
	fr.v.smt.note("channel send: no effect on the modelled state (delivery is outside sequential reasoning)")
	fr.siteAssertsSend(st, et, fr.term(st, x.X), "true", x.Pos())
}

// siteAssertsSend: "assert L at send" with the value being sent bound to v; afterwards (units with
// `opt trackhandover`) the object is recorded as handed over to whoever receives from the channel.
func (fr *Frame) siteAssertsSend(st *State, et types.Type, val, chosen string, pos token.Pos) {
	v := fr.v
	fr.sendVal = &specVal{t: val, typ: et, st: st}
	fr.siteAssertsNamed(st, "send", pos)
	fr.sendVal = nil
	if v.fc != nil && v.fc.Opts["trackhandover"] != "" {
		if _, isInt := sortIsInt(et); isInt {
			k := v.ghostKey("handed", "(Array Int Bool)")
			H := v.heap(st, k)
			v.setHeap(st, k, ite(chosen, sto(H, val, "true"), H))
		}
	}
}

func (fr *Frame) execSelect(st *State, x *ssa.Select) {
	v := fr.v
	idx := v.smt.fresh(fr.name(x)+".idx", "Int")
	lo := "0"
	if !x.Blocking {
		lo = "(- 1)"
	}
	v.smt.assert(and("(<= "+lo+" "+idx+")", fmt.Sprintf("(< %s %d)", idx, len(x.States))))
	out := []Val{{T: idx}, {T: v.smt.fresh(fr.name(x)+".ok", "Bool")}}
	for i, sc := range x.States {
		if sc.Dir == types.RecvOnly {
			t := sc.Chan.Type().Underlying().(*types.Chan).Elem()
			n := v.smt.fresh(fmt.Sprintf("%s.recv%d", fr.name(x), i), v.smt.sortOf(t))
			v.smt.assert(v.closedFact(n, t, v.alloc(st), 0))
			fr.chanMsgInv(st, t, n, false, x.Pos())
			out = append(out, Val{T: n})
		}
	}
	// ghost: number of values received from each channel so far
	for i, sc := range x.States {
		if sc.Dir == types.RecvOnly {
			fr.countRecv(st, fr.term(st, sc.Chan), fmt.Sprintf("(= %s %d)", idx, i))
		}
	}
	for i, sc := range x.States {
		if sc.Dir == types.SendOnly {
			t := sc.Chan.Type().Underlying().(*types.Chan).Elem()
			fr.chanMsgInv(st, t, fr.term(st, sc.Send), true, x.Pos())
			fr.siteAssertsSend(st, t, fr.term(st, sc.Send), fmt.Sprintf("(= %s %d)", idx, i), x.Pos())
		}
	}
	v.smt.note("select: nondeterministic choice among the cases; received values unconstrained")
	fr.vals[x] = Val{Tuple: out}
}

// countCall: ghost counter ncalls!<name> += 1 for the callees named in `opt track = a b c`
// (calls made by the function under contract itself, not by its callees).
func (fr *Frame) countCall(st *State, c *ssa.CallCommon) {
	v := fr.v
	if !fr.transparent || v.fc == nil || v.fc.Opts["track"] == "" {
		return
	}
	var callee string
	if c.IsInvoke() {
		callee = c.Method.Name()
	} else if f, ok := c.Value.(*ssa.Function); ok {
		callee = f.Name()
	} else {
		return
	}
	for _, t := range strings.Fields(v.fc.Opts["track"]) {
		if t == callee {
			k := v.ghostKey("ncalls!"+callee, "Int")
			v.setHeap(st, k, "(+ 1 "+v.heap(st, k)+")")
			// the pointer-like arguments of the latest call (lastarg(F, i) in specs)
			for i, a := range c.Args {
				if _, ok := sortIsInt(a.Type()); ok {
					if val := fr.val(a); val.Loc == nil && val.T != "" {
						v.setHeap(st, v.ghostKey(fmt.Sprintf("lastarg!%s!%d", callee, i), "Int"), val.T)
					}
				}
			}
		}
	}
}

// countRecv: ghost counter nrecv[ch] += 1 when cond holds.
func (fr *Frame) countRecv(st *State, ch, cond string) {
	v := fr.v
	k := v.ghostKey("nrecv", "(Array Int Int)")
	h := v.heap(st, k)
	v.setHeap(st, k, ite(cond, sto(h, ch, "(+ 1 "+sel(h, ch)+")"), h))
}

// siteAssertsNamed: site assertions of the form "at <kind>" without a callee (e.g. "at send").
func (fr *Frame) siteAssertsNamed(st *State, kind string, pos token.Pos) {
	v := fr.v
	if v.fc == nil || !fr.transparent {
		return
	}
	for _, as := range v.fc.Asserts {
		if strings.TrimSpace(as.Site) != kind {
			continue
		}
		env := fr.specEnv(st, nil)
		env.retBlock = fr.curBlock
		env.atSite = true
		if fr.sendVal != nil {
			env = env.bind("v", *fr.sendVal)
		}
		g, extra := env.boolTerm(as.Cl.Expr)
		v.siteCount["assert."+as.Label]++
		o := v.addObl(st, "assert", fmt.Sprintf("%s#%d", as.Label, v.siteCount["assert."+as.Label]), g, as.Cl.Text, pickProps(as.Cl, v.fc.Serves), pos)
		o.Extra = extra
		o.Group = as.Cl.Group
		v.siteCover(st, o)
		v.anteCovers(st, env, o, as.Cl.Expr, "")
		v.assertHits[as.Label]++
	}
}

func (v *FnVerifier) noMonitor() bool { return v.fc != nil && v.fc.Opts["nomonitor"] != "" }

// mapLen: len(m) as an uninterpreted function of the current key set of m (0 for a nil map).
func (v *FnVerifier) mapLen(st *State, mt *types.Map, m string) string {
	dk, _ := v.mapKeys(mt)
	ks := v.smt.sortOf(mt.Key())
	f := v.smt.declareFun("map.len!"+sanitize(ks), []string{"(Array " + ks + " Bool)"}, "Int")
	return ite("(= "+m+" 0)", "0", app(f, sel(v.heap(st, dk), m)))
}
