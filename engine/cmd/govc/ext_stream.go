package main

// Token-stream model of io.Reader / io.Writer and of the dependency codecs (C15, C20, C11, C18).
//
// A stream (identified by the pointer payload of the interface value, or by the *bytes.Buffer
// reference) is a ghost array of tokens plus a token count and a read position. Each primitive
// codec of a dependency writes / reads exactly one token. What this abstraction assumes — and
// what is therefore listed as trusted in every evidence file that uses it — is that every
// primitive's byte codec is an exact inverse pair, self-delimiting, and fails on a partial token.

import (
	"fmt"
	"go/types"
	"strings"

	"golang.org/x/tools/go/ssa"
)

const (
	tkVarInt = 1
	tkBytes  = 3
	tkFixed  = 100  // + code of the fixed-size type
	tkObject = 1000 // + type tag of the object type
)

func (v *FnVerifier) streamKeys() (stk, sn, sp string) {
	v.smt.declSortRaw("Tok", "(declare-datatypes ((Tok 0)) (((mk-tok (tk.kind Int) (tk.val Int)))))")
	stk = v.ghostKey("stk", "(Array Int (Array Int Tok))")
	sn = v.ghostKey("sn", "(Array Int Int)")
	sp = v.ghostKey("sp", "(Array Int Int)")
	return
}

func (s *SMT) declSortRaw(name, decl string) {
	if !s.sortSeen[name] {
		s.sortSeen[name] = true
		s.sortDecls = append(s.sortDecls, decl)
	}
}

var streamGhosts = []KeyInfo{
	{Key: "GH!stk", Ghost: "(Array Int (Array Int Tok))"},
	{Key: "GH!sn", Ghost: "(Array Int Int)"},
	{Key: "GH!sp", Ghost: "(Array Int Int)"},
}

func streamMods(ms *ModSet, c *ssa.CallCommon) {
	for _, k := range streamGhosts {
		ms.add(k)
	}
}

// readMods: reading only moves the read position
func readMods(ms *ModSet, c *ssa.CallCommon) {
	ms.add(streamGhosts[2])
}

// writeMods: writing appends tokens
func writeMods(ms *ModSet, c *ssa.CallCommon) {
	ms.add(streamGhosts[0])
	ms.add(streamGhosts[1])
}

// streamID: the stream behind an io.Reader/io.Writer interface value or a *bytes.Buffer / *bytes.Reader.
func (fr *Frame) streamID(st *State, x ssa.Value) string {
	t := fr.term(st, x)
	if _, ok := x.Type().Underlying().(*types.Interface); ok {
		return "(i.val " + t + ")"
	}
	return t
}

func (v *FnVerifier) blobKey() string {
	return v.ghostKey("blob", "(Array Int Int)")
}

func (v *FnVerifier) absKey(t types.Type) string {
	return v.ghostKey("abs!"+shortType(t), "(Array Int Int)")
}

// encVal encodes a value of a non-Int sort as an Int payload (injective by the dec/enc axiom).
func (v *FnVerifier) encVal(term string, t types.Type) string {
	s := v.smt.sortOf(t)
	switch s {
	case "Int":
		return term
	case "Bool":
		return ite(term, "1", "0")
	}
	enc := v.smt.declareFun("enc!"+sanitize(s), []string{s}, "Int")
	dec := v.smt.declareFun("dec!"+sanitize(s), []string{"Int"}, s)
	ax := fmt.Sprintf("(forall ((x %s)) (! (= (%s (%s x)) x) :pattern ((%s x))))", s, dec, enc, enc)
	if !v.smt.ufs[ax] {
		v.smt.ufs[ax] = true
		v.smt.axiom(ax)
	}
	return app(enc, term)
}

func (v *FnVerifier) decVal(payload string, t types.Type) string {
	s := v.smt.sortOf(t)
	switch s {
	case "Int":
		return payload
	case "Bool":
		return "(not (= " + payload + " 0))"
	}
	v.encVal(v.smt.zeroOf(t), t) // make sure the axiom exists
	return app("dec!"+sanitize(s), payload)
}

// writeTok appends a token when ok holds.
func (v *FnVerifier) writeTok(st *State, id, ok, kind, val string) {
	stk, sn, _ := v.streamKeys()
	n := sel(v.heap(st, sn), id)
	T := v.heap(st, stk)
	v.setHeap(st, stk, ite(ok, sto(T, id, sto(sel(T, id), n, "(mk-tok "+kind+" "+val+")")), T))
	N := v.heap(st, sn)
	v.setHeap(st, sn, ite(ok, sto(N, id, "(+ "+n+" 1)"), N))
}

// readTok: returns (ok, payload). ok iff a token of the wanted kind is next; the position advances iff ok.
func (v *FnVerifier) readTok(st *State, id, kind string, extra func(payload string) string) (ok, payload string) {
	stk, sn, sp := v.streamKeys()
	p := sel(v.heap(st, sp), id)
	n := sel(v.heap(st, sn), id)
	tok := sel(sel(v.heap(st, stk), id), p)
	payload = v.smt.define("tok.val", "Int", "(tk.val "+tok+")")
	cond := and("(<= 0 "+p+")", "(< "+p+" "+n+")", eq("(tk.kind "+tok+")", kind))
	if extra != nil {
		cond = and(cond, extra(payload))
	}
	ok = v.smt.define("tok.ok", "Bool", cond)
	P := v.heap(st, sp)
	v.setHeap(st, sp, ite(ok, sto(P, id, "(+ "+p+" 1)"), P))
	v.noteEnd(st, id, "(>= "+p+" "+n+")")
	return
}

// trackEnd: the unit records (ghost hitend) every read attempted at the end of a stream, so that a
// decoder's contract can say "a read that ran out of input makes the decoder fail" (opt trackend).
func (v *FnVerifier) trackEnd() bool { return v.fc != nil && v.fc.Opts["trackend"] != "" }

const hitEndKey = "GH!hitend"

func (v *FnVerifier) noteEnd(st *State, id, ended string) {
	if !v.trackEnd() {
		return
	}
	k := v.ghostKey("hitend", "(Array Int Bool)")
	H := v.heap(st, k)
	v.setHeap(st, k, ite(ended, sto(H, id, "true"), H))
}

func (v *FnVerifier) writeErr(st *State, fr *Frame, hint string) (okT, errT string) {
	errT = v.smt.fresh(hint+".err", "Iface")
	v.smt.assert(v.closedFact(errT, types.Universe.Lookup("error").Type(), v.alloc(st), 0))
	if v.fc != nil && v.fc.Opts["writes_succeed"] != "" {
		v.smt.assert(eq(errT, "(mk-iface 0 0)"))
		v.smt.note("writes to the in-memory buffer of the round-trip harness never fail")
	}
	okT = eq(errT, "(mk-iface 0 0)")
	return
}

func readErrTerm(v *FnVerifier, st *State, ok string) string {
	errT := v.smt.fresh("rd.err", "Iface")
	v.smt.assert(v.closedFact(errT, types.Universe.Lookup("error").Type(), v.alloc(st), 0))
	v.smt.assert(eq(ok, eq(errT, "(mk-iface 0 0)")))
	v.notRepoSentinel(errT)
	// a decoding error is an I/O or format error of the codec, never the storage layer's "not found"
	if _, has := v.eng.sentinels["github.com/tokenized/pkg/storage.ErrNotFound"]; has {
		nf := v.sentinelTerm("github.com/tokenized/pkg/storage.ErrNotFound")
		cause := v.smt.declareFun("uf!errCause", []string{"Iface"}, "Iface")
		v.smt.assert(and(not(eq(errT, nf)), not(eq(app(cause, errT), nf))))
	}
	return errT
}

func fixedCode(t types.Type) (int, bool) {
	b, ok := t.Underlying().(*types.Basic)
	if !ok {
		return 0, false
	}
	if b.Kind() == types.Bool {
		return 1, true
	}
	bits, signed, ok := intBits(b)
	if !ok {
		return 0, false
	}
	c := bits
	if signed {
		c++
	}
	return c, true
}

// isCodecMethod: a Serialize/Deserialize-like method or function of a dependency taking a stream first.
func isCodecFunc(f *ssa.Function) (write bool, ok bool) {
	if f.Pkg == nil || strings.HasPrefix(f.Pkg.Pkg.Path(), "github.com/tokenized/spynode") {
		return false, false
	}
	sig := f.Signature
	if sig.Recv() == nil {
		return false, false
	}
	if sig.Params().Len() < 1 || sig.Results().Len() != 1 {
		return false, false
	}
	if sig.Results().At(0).Type().String() != "error" {
		return false, false
	}
	pt := sig.Params().At(0).Type().String()
	switch {
	case pt == "io.Writer" && (f.Name() == "Serialize" || f.Name() == "BtcEncode" || f.Name() == "Write"):
		return true, true
	case pt == "io.Reader" && (f.Name() == "Deserialize" || f.Name() == "BtcDecode" || f.Name() == "Read"):
		return false, true
	}
	return false, false
}

var objectCodec = &extModel{name: "<dependency>.Serialize/Deserialize(stream)",
	targets: func(c *ssa.CallCommon) []ssa.Value {
		if w, _ := isCodecFunc(c.StaticCallee()); w {
			return []ssa.Value{}
		}
		return []ssa.Value{c.Args[0]}
	}, doc: "one opaque token per object: inverse pair, self-delimiting, fails on a partial or foreign token; transparent fields of the decoded object are unconstrained except through its abstract value",
	mods: func(ms *ModSet, c *ssa.CallCommon) {
		if c == nil {
			streamMods(ms, c)
			return
		}
		if w, _ := isCodecFunc(c.StaticCallee()); w {
			writeMods(ms, c)
			return
		}
		readMods(ms, c)
		if len(c.Args) > 0 {
			rt := deref(c.Args[0].Type())
			if isRefStruct(rt) && !isFlatStruct(rt) {
				addPointeeKeys(ms, rt)
				ms.add(KeyInfo{Key: "GH!abs!" + shortType(rt), Ghost: "(Array Int Int)"})
			} else {
				addrKeys(ms, c.Args[0])
			}
		}
	},
	apply: func(fr *Frame, st *State, c *ssa.CallCommon, args []Val, res ssa.Value) Val {
		v := fr.v
		f := c.StaticCallee()
		write, _ := isCodecFunc(f)
		recvT := c.Args[0].Type()
		pointee := deref(recvT)
		_, isPtr := recvT.Underlying().(*types.Pointer)
		id := fr.streamID(st, c.Args[1])
		kind := fmt.Sprintf("%d", tkObject+v.typeTag(pointee))
		refObj := isPtr && isRefStruct(pointee) && !isFlatStruct(pointee)
		if refObj && args[0].Loc != nil {
			v.unsupported("codec call on an embedded non-flat struct value %s", pointee)
		}
		if write {
			var payload string
			switch {
			case refObj:
				payload = sel(v.heap(st, v.absKey(pointee)), args[0].T)
			case isPtr:
				payload = v.encVal(v.loadPtr(st, args[0], pointee), pointee)
			default:
				payload = v.encVal(fr.term(st, c.Args[0]), pointee)
			}
			ok, errT := v.writeErr(st, fr, "ser")
			if refObj {
				fr.safetyObl(st, "nil", "(not (= "+args[0].T+" 0))", "Serialize on nil object", c.Pos())
			}
			v.writeTok(st, id, ok, kind, payload)
			out := Val{T: errT}
			fr.setResult(res, out)
			return out
		}
		ok, payload := v.readTok(st, id, kind, nil)
		errT := readErrTerm(v, st, ok)
		switch {
		case refObj:
			ak := v.absKey(pointee)
			A := v.heap(st, ak)
			// the decoded object's fields are whatever the abstract value dictates: havoc them
			ms := newModSet()
			addPointeeKeys(ms, pointee)
			pre := map[string]string{}
			for k, ki := range ms.Keys {
				v.ensureKey(ki)
				pre[k] = v.heap(st, k)
			}
			allocPre := v.alloc(st)
			v.havocKeys(st, ms)
			for k := range ms.Keys {
				v.frameOld(k, pre[k], st.heaps[k], allocPre, []string{args[0].T})
			}
			v.setHeap(st, ak, ite(ok, sto(A, args[0].T, payload), A))
			v.objectFacts(st, args[0].T, pointee)
		case isPtr:
			old := v.loadPtr(st, args[0], pointee)
			v.storePtr(st, args[0], pointee, ite(ok, v.decVal(payload, pointee), old))
		default:
			v.unsupported("Deserialize on a value receiver")
		}
		out := Val{T: errT}
		fr.setResult(res, out)
		return out
	}}

// objectFacts: links between an object's abstract value and the transparent fields the repository reads.
func (v *FnVerifier) objectFacts(st *State, ref string, t types.Type) {
	if n, ok := types.Unalias(t).(*types.Named); ok && n.Obj().Pkg() != nil && n.Obj().Pkg().Path() == pkgWire && n.Obj().Name() == "MsgTx" {
		_, s := namedStruct(t)
		for i := 0; i < s.NumFields(); i++ {
			if s.Field(i).Name() == "TxIn" {
				f := v.smt.declareFun("uf!txinCount", []string{"Int"}, "Int")
				v.smt.assert(eq("(s.len "+sel(v.heap(st, v.fieldKey(t, i)), ref)+")", app(f, sel(v.heap(st, v.absKey(t)), ref))))
				v.smt.note("len(tx.TxIn) is a function of the transaction's abstract value")
				// C20: the dependency's decoder allocates in proportion to the input it consumed
				v.smt.assert("(<= (s.len " + sel(v.heap(st, v.fieldKey(t, i)), ref) + ") " + v.heap(st, v.ghostKey("inputBudget", "Int")) + ")")
				v.smt.note("decoders inside dependencies (MsgTx.Deserialize, ...) allocate in proportion to the bytes they consume (assumed)")
			}
		}
	}
}

func init() {
	reg("github.com/tokenized/pkg/wire.WriteVarInt", "appends one VarInt token (or fails, leaving the token list unchanged)", writeMods,
		func(fr *Frame, st *State, c *ssa.CallCommon, args []Val, res ssa.Value) Val {
			v := fr.v
			id := fr.streamID(st, c.Args[0])
			ok, errT := v.writeErr(st, fr, "wvi")
			v.writeTok(st, id, ok, fmt.Sprint(tkVarInt), fr.term(st, c.Args[2]))
			fr.setResult(res, Val{T: errT})
			return Val{T: errT}
		})
	reg("github.com/tokenized/pkg/wire.ReadVarInt", "pops one VarInt token (value in [0,2^64)) or fails without consuming", readMods,
		func(fr *Frame, st *State, c *ssa.CallCommon, args []Val, res ssa.Value) Val {
			v := fr.v
			id := fr.streamID(st, c.Args[0])
			ok, payload := v.readTok(st, id, fmt.Sprint(tkVarInt), nil)
			errT := readErrTerm(v, st, ok)
			// well-formed streams: a VarInt token carries a uint64
			v.smt.assert(implies(ok, and("(<= 0 "+payload+")", "(< "+payload+" "+pow2(64)+")")))
			val := v.smt.define("rvi", "Int", ite(ok, payload, "0"))
			out := Val{Tuple: []Val{{T: val}, {T: errT}}}
			fr.setResult(res, out)
			return out
		})
	reg("encoding/binary.Write", "appends one fixed-size token carrying the value (kind = size/signedness of the static type)", writeMods,
		func(fr *Frame, st *State, c *ssa.CallCommon, args []Val, res ssa.Value) Val {
			v := fr.v
			mi, ok := c.Args[2].(*ssa.MakeInterface)
			if !ok {
				v.unsupported("binary.Write of a value whose static type is unknown")
			}
			code, ok := fixedCode(mi.X.Type())
			if !ok {
				v.unsupported("binary.Write of %s", mi.X.Type())
			}
			id := fr.streamID(st, c.Args[0])
			okT, errT := v.writeErr(st, fr, "bw")
			v.writeTok(st, id, okT, fmt.Sprint(tkFixed+code), v.encVal(fr.term(st, mi.X), mi.X.Type()))
			fr.setResult(res, Val{T: errT})
			return Val{T: errT}
		})
	reg("encoding/binary.Read", "pops one fixed-size token of the pointee's kind into the pointee, or fails without consuming", func(ms *ModSet, c *ssa.CallCommon) {
		readMods(ms, c)
		if c != nil {
			if mi, ok := c.Args[2].(*ssa.MakeInterface); ok {
				addrKeys(ms, mi.X)
			}
		}
	}, func(fr *Frame, st *State, c *ssa.CallCommon, args []Val, res ssa.Value) Val {
		v := fr.v
		mi, ok := c.Args[2].(*ssa.MakeInterface)
		if !ok {
			v.unsupported("binary.Read into a value whose static type is unknown")
		}
		pt, ok := mi.X.Type().Underlying().(*types.Pointer)
		if !ok {
			v.unsupported("binary.Read into non-pointer %s", mi.X.Type())
		}
		code, ok := fixedCode(pt.Elem())
		if !ok {
			v.unsupported("binary.Read of %s", pt.Elem())
		}
		id := fr.streamID(st, c.Args[0])
		okT, payload := v.readTok(st, id, fmt.Sprint(tkFixed+code), nil)
		errT := readErrTerm(v, st, okT)
		dst := fr.val(mi.X)
		old := v.loadPtr(st, dst, pt.Elem())
		val := v.decVal(payload, pt.Elem())
		if b, isB := pt.Elem().Underlying().(*types.Basic); isB && b.Info()&types.IsInteger != 0 {
			// an arbitrary token payload is wrapped into the type's range
			bits, signed, _ := intBits(b)
			if signed {
				h := pow2(bits - 1)
				val = "(- (mod (+ " + payload + " " + h + ") " + pow2(bits) + ") " + h + ")"
			} else {
				val = "(mod " + payload + " " + pow2(bits) + ")"
			}
		}
		v.storePtr(st, dst, pt.Elem(), ite(okT, val, old))
		fr.setResult(res, Val{T: errT})
		return Val{T: errT}
	})
	reg("io.ReadFull", "pops one Bytes token whose length equals len(buf) into buf, or fails (a partial read leaves buf unspecified)", func(ms *ModSet, c *ssa.CallCommon) {
		readMods(ms, c)
		ms.add(kiElem(types.Typ[types.Uint8]))
		ms.add(KeyInfo{Key: "GH!blob", Ghost: "(Array Int Int)"})
	}, func(fr *Frame, st *State, c *ssa.CallCommon, args []Val, res ssa.Value) Val {
		v := fr.v
		id := fr.streamID(st, c.Args[0])
		b := fr.term(st, c.Args[1])
		blen := v.smt.declareFun("uf!blobLen", []string{"Int"}, "Int")
		okT, payload := v.readTok(st, id, fmt.Sprint(tkBytes), func(p string) string { return eq(app(blen, p), "(s.len "+b+")") })
		// reading zero bytes always succeeds without touching the stream
		okT = v.smt.define("rf.ok", "Bool", okT)
		errT := readErrTerm(v, st, okT)
		bk := v.blobKey()
		B := v.heap(st, bk)
		fresh := v.smt.fresh("blob", "Int")
		v.setHeap(st, bk, sto(B, "(s.arr "+b+")", ite(okT, payload, fresh)))
		// element contents are those of the blob (uninterpreted) — havoc the row
		k := v.elemKey(types.Typ[types.Uint8])
		E := v.heap(st, k)
		bytesOf := v.smt.declareFun("uf!blobBytes", []string{"Int"}, "(Array Int Int)")
		row := v.smt.fresh("rf.row", "(Array Int Int)")
		v.smt.assert(fmt.Sprintf("(forall ((j Int)) (! (= (select %s j) (ite (and %s (<= (s.off %s) j) (< j (+ (s.off %s) (s.len %s)))) (select (%s %s) (- j (s.off %s))) (select (select %s (s.arr %s)) j))) :pattern ((select %s j))))",
			row, okT, b, b, b, bytesOf, payload, b, E, b, row))
		v.setHeap(st, k, sto(E, "(s.arr "+b+")", row))
		n := v.smt.define("rf.n", "Int", ite(okT, "(s.len "+b+")", "0"))
		out := Val{Tuple: []Val{{T: n}, {T: errT}}}
		fr.setResult(res, out)
		return out
	})
	regInvoke("io.Writer.Write", "appends one Bytes token carrying the blob of the slice (slice assumed to span its array from offset 0)", func(ms *ModSet, c *ssa.CallCommon) {
		writeMods(ms, c)
		ms.add(KeyInfo{Key: "GH!blob", Ghost: "(Array Int Int)"})
	}, func(fr *Frame, st *State, c *ssa.CallCommon, args []Val, res ssa.Value) Val {
		v := fr.v
		id := "(i.val " + args[0].T + ")"
		b := fr.term(st, c.Args[0])
		okT, errT := v.writeErr(st, fr, "w")
		blen := v.smt.declareFun("uf!blobLen", []string{"Int"}, "Int")
		payload := sel(v.heap(st, v.blobKey()), "(s.arr "+b+")")
		v.smt.assert(implies(st.reach, eq(app(blen, payload), "(s.len "+b+")")))
		rowF := v.smt.declareFun("uf!blobRow", []string{"Int"}, "(Array Int Int)")
		v.smt.assert(implies(and(st.reach, eq("(s.len "+b+")", "1")), eq(sel(app(rowF, payload), "(ix 0 0)"), sel(sel(v.heap(st, v.elemKey(types.Typ[types.Uint8])), "(s.arr "+b+")"), "(ix (s.off "+b+") 0)"))))
		v.smt.note("a byte slice handed to Write/ReadFull/Unmarshal is identified with the blob of its backing array (not mutated element-wise in between; its length is the blob's length)")
		v.writeTok(st, id, okT, fmt.Sprint(tkBytes), payload)
		n := v.smt.define("w.n", "Int", ite(okT, "(s.len "+b+")", "0"))
		out := Val{Tuple: []Val{{T: n}, {T: errT}}}
		fr.setResult(res, out)
		return out
	})
	regInvoke("io.Reader.Read", "general io.Reader contract: may return fewer bytes than asked with a nil error; afterwards the token stream is unspecified", func(ms *ModSet, c *ssa.CallCommon) {
		streamMods(ms, c)
		ms.add(kiElem(types.Typ[types.Uint8]))
		ms.add(KeyInfo{Key: "GH!blob", Ghost: "(Array Int Int)"})
	}, func(fr *Frame, st *State, c *ssa.CallCommon, args []Val, res ssa.Value) Val {
		v := fr.v
		b := fr.term(st, c.Args[0])
		recv := args[0].T
		id := "(i.val " + recv + ")"
		// an in-memory reader (*bytes.Reader, *bytes.Buffer) never returns short: under the token
		// abstraction a read whose length matches the next Bytes token pops exactly that token, a
		// read at the end of the stream returns (0, io.EOF); anything else (misaligned) is unspecified
		stk, sn, sp := v.streamKeys()
		bytesReader := types.NewPointer(v.eng.lookupType("bytes", "Reader"))
		bytesBuffer := types.NewPointer(v.eng.lookupType("bytes", "Buffer"))
		exact := or(fmt.Sprintf("(= (i.tag %s) %d)", recv, v.typeTag(bytesReader)), fmt.Sprintf("(= (i.tag %s) %d)", recv, v.typeTag(bytesBuffer)))
		pos := sel(v.heap(st, sp), id)
		cnt := sel(v.heap(st, sn), id)
		tok := sel(sel(v.heap(st, stk), id), pos)
		payload := v.smt.define("rd.payload", "Int", "(tk.val "+tok+")")
		blen := v.smt.declareFun("uf!blobLen", []string{"Int"}, "Int")
		rowF := v.smt.declareFun("uf!blobRow", []string{"Int"}, "(Array Int Int)")
		L := "(s.len " + b + ")"
		hit := v.smt.define("rd.hit", "Bool", and(exact, "(> "+L+" 0)", "(<= 0 "+pos+")", "(< "+pos+" "+cnt+")", eq("(tk.kind "+tok+")", fmt.Sprint(tkBytes)), eq(app(blen, payload), L)))
		eof := v.smt.define("rd.eof", "Bool", and(exact, "(> "+L+" 0)", "(>= "+pos+" "+cnt+")"))
		ms := newModSet()
		streamMods(ms, nil)
		ek := kiElem(types.Typ[types.Uint8])
		ms.add(ek)
		ms.add(KeyInfo{Key: "GH!blob", Ghost: "(Array Int Int)"})
		before := map[string]string{}
		for k, ki := range ms.Keys {
			v.ensureKey(ki)
			before[k] = v.heap(st, k)
		}
		v.havocKeys(st, ms)
		for k := range ms.Keys {
			hv := v.heap(st, k)
			upd := before[k]
			switch k {
			case sp:
				upd = sto(before[k], id, "(+ "+pos+" 1)")
			case v.blobKey():
				upd = sto(before[k], "(s.arr "+b+")", payload)
			case ek.Key:
				upd = sto(before[k], "(s.arr "+b+")", app(rowF, payload))
			}
			v.setHeap(st, k, ite(hit, upd, ite(eof, before[k], hv)))
		}
		v.noteEnd(st, id, eof)
		n := v.smt.fresh("rd.n", "Int")
		errT := v.smt.fresh("rd.err", "Iface")
		v.smt.assert(and("(<= 0 "+n+")", "(<= "+n+" (s.len "+b+"))"))
		v.smt.assert(v.closedFact(errT, types.Universe.Lookup("error").Type(), v.alloc(st), 0))
		v.smt.assert(implies(hit, and(eq(n, L), eq(errT, "(mk-iface 0 0)"))))
		v.smt.assert(implies(eof, and(eq(n, "0"), eq(errT, v.sentinelTerm("io.EOF")))))
		// reading into the bytes of a named array (txid[:]): the array value is the one that blob encodes
		if sl, ok := c.Args[0].(*ssa.Slice); ok && sl.Low == nil && sl.High == nil {
			if pt, ok := sl.X.Type().Underlying().(*types.Pointer); ok && isOpaqueNamed(pt.Elem()) {
				if arr, ok := pt.Elem().Underlying().(*types.Array); ok {
					_, fromBlob := v.opaqueBlobFuns(pt.Elem(), arr.Len())
					base := fr.val(sl.X)
					var oldV string
					if base.Loc != nil {
						oldV = v.loadLoc(st, base.Loc)
					} else {
						oldV = v.loadPtr(st, base, pt.Elem())
					}
					nv := v.smt.fresh("rd.arr", v.smt.sortOf(pt.Elem()))
					v.smt.assert(implies(hit, eq(nv, app(fromBlob, payload))))
					v.smt.assert(implies(eof, eq(nv, oldV)))
					if base.Loc != nil {
						v.storeLoc(st, base.Loc, nv)
					} else {
						v.storePtr(st, base, pt.Elem(), nv)
					}
				}
			}
		}
		out := Val{Tuple: []Val{{T: n}, {T: errT}}}
		fr.setResult(res, out)
		return out
	})
}

func (v *FnVerifier) bsorFuns() (enc, dec, valid, blen string) {
	enc = v.smt.declareFun("uf!bsorEnc", []string{"Int"}, "Int")
	dec = v.smt.declareFun("uf!bsorDec", []string{"Int"}, "Int")
	valid = v.smt.declareFun("uf!bsorValid", []string{"Int"}, "Bool")
	blen = v.smt.declareFun("uf!blobLen", []string{"Int"}, "Int")
	ax := fmt.Sprintf("(forall ((a Int)) (! (and (= (%s (%s a)) a) (%s (%s a)) (>= (%s (%s a)) 0)) :pattern ((%s a))))", dec, enc, valid, enc, blen, enc, enc)
	if !v.smt.ufs[ax] {
		v.smt.ufs[ax] = true
		v.smt.axiom(ax)
	}
	return
}

// absOfIface: abstract value id of the object handed to bsor as interface{} (built by MakeInterface).
func (fr *Frame) bsorObject(st *State, x ssa.Value) (mi *ssa.MakeInterface, ok bool) {
	mi, ok = x.(*ssa.MakeInterface)
	return
}

func init() {
	reg("github.com/tokenized/pkg/bsor.MarshalBinary", "returns a fresh byte slice whose blob is bsorEnc(abstract value); may fail", func(ms *ModSet, c *ssa.CallCommon) {
		ms.add(KeyInfo{Key: "GH!blob", Ghost: "(Array Int Int)"})
	}, func(fr *Frame, st *State, c *ssa.CallCommon, args []Val, res ssa.Value) Val {
		v := fr.v
		mi, ok := fr.bsorObject(st, c.Args[0])
		if !ok {
			v.unsupported("bsor.MarshalBinary of a value whose static type is unknown")
		}
		var absid string
		xt := mi.X.Type()
		switch u := xt.Underlying().(type) {
		case *types.Pointer:
			if isRefStruct(u.Elem()) {
				absid = sel(v.heap(st, v.absKey(u.Elem())), fr.term(st, mi.X))
			} else {
				absid = v.encVal(v.loadPtr(st, fr.val(mi.X), u.Elem()), u.Elem())
			}
		case *types.Slice:
			absid = app(v.smt.declareFun("uf!absSlice", []string{"Slice"}, "Int"), fr.term(st, mi.X))
		default:
			absid = v.encVal(fr.term(st, mi.X), xt)
		}
		enc, _, _, blen := v.bsorFuns()
		errT := v.smt.fresh("bsor.err", "Iface")
		v.smt.assert(v.closedFact(errT, types.Universe.Lookup("error").Type(), v.alloc(st), 0))
		if v.fc != nil && v.fc.Opts["writes_succeed"] != "" {
			v.smt.assert(eq(errT, "(mk-iface 0 0)"))
			v.smt.note("round-trip harness: the value handed to bsor.MarshalBinary is encodable (marshalling does not fail)")
		}
		r := v.newRef(st, "bsor")
		bk := v.blobKey()
		v.setHeap(st, bk, sto(v.heap(st, bk), r, app(enc, absid)))
		n := app(blen, app(enc, absid))
		out := Val{Tuple: []Val{{T: v.smt.define("bsor.bytes", "Slice", fmt.Sprintf("(mk-slice %s 0 %s %s)", r, n, n))}, {T: errT}}}
		v.smt.assert("(< " + n + " 9223372036854775808)")
		fr.setResult(res, out)
		return out
	})
	reg("github.com/tokenized/pkg/bsor.UnmarshalBinary", "decodes the blob of the slice into the object: abstract value bsorDec(blob); succeeds exactly on valid encodings", func(ms *ModSet, c *ssa.CallCommon) {
		if c != nil {
			if mi, ok := c.Args[1].(*ssa.MakeInterface); ok {
				if pt, ok := mi.X.Type().Underlying().(*types.Pointer); ok {
					if isRefStruct(pt.Elem()) {
						addPointeeKeys(ms, pt.Elem())
						ms.add(KeyInfo{Key: "GH!abs!" + shortType(pt.Elem()), Ghost: "(Array Int Int)"})
					} else {
						addrKeys(ms, mi.X)
					}
				}
			}
		}
	}, func(fr *Frame, st *State, c *ssa.CallCommon, args []Val, res ssa.Value) Val {
		v := fr.v
		mi, ok := fr.bsorObject(st, c.Args[1])
		if !ok {
			v.unsupported("bsor.UnmarshalBinary into a value whose static type is unknown")
		}
		pt, ok := mi.X.Type().Underlying().(*types.Pointer)
		if !ok {
			v.unsupported("bsor.UnmarshalBinary into a non-pointer")
		}
		b := fr.term(st, c.Args[0])
		_, dec, valid, blen := v.bsorFuns()
		blob := sel(v.heap(st, v.blobKey()), "(s.arr "+b+")")
		okT := v.smt.define("bsor.ok", "Bool", and(app(valid, blob), eq(app(blen, blob), "(s.len "+b+")")))
		errT := readErrTerm(v, st, okT)
		absid := app(dec, blob)
		dst := fr.val(mi.X)
		switch u := pt.Elem().Underlying().(type) {
		case *types.Slice:
			f := v.smt.declareFun("uf!absSlice", []string{"Slice"}, "Int")
			ns := v.smt.fresh("bsor.slice", "Slice")
			v.smt.assert(v.closedFact(ns, pt.Elem(), v.alloc(st), 0))
			v.smt.assert(implies(okT, eq(app(f, ns), absid)))
			v.storePtr(st, dst, pt.Elem(), ns)
			_ = u
		default:
			if !isRefStruct(pt.Elem()) {
				old := v.loadPtr(st, dst, pt.Elem())
				v.storePtr(st, dst, pt.Elem(), ite(okT, v.decVal(absid, pt.Elem()), old))
				break
			}
			if dst.Loc != nil {
				v.unsupported("bsor.UnmarshalBinary into embedded %s", pt.Elem())
			}
			ak := v.absKey(pt.Elem())
			A := v.heap(st, ak)
			ms := newModSet()
			addPointeeKeys(ms, pt.Elem())
			pre := map[string]string{}
			for k, ki := range ms.Keys {
				v.ensureKey(ki)
				pre[k] = v.heap(st, k)
			}
			allocPre := v.alloc(st)
			v.havocKeys(st, ms)
			for k := range ms.Keys {
				v.frameOld(k, pre[k], st.heaps[k], allocPre, []string{dst.T})
			}
			v.setHeap(st, ak, ite(okT, sto(A, dst.T, absid), A))
		}
		rest := v.smt.fresh("bsor.rest", "Slice")
		v.smt.assert(v.closedFact(rest, c.Args[0].Type(), v.alloc(st), 0))
		out := Val{Tuple: []Val{{T: rest}, {T: errT}}}
		fr.setResult(res, out)
		return out
	})
}

// lookupCodec is consulted by Engine.extModel for functions without a registered model.
func lookupCodec(f *ssa.Function) *extModel {
	if _, ok := isCodecFunc(f); ok {
		return objectCodec
	}
	return nil
}

// isFlatStruct: a transparent struct whose fields are scalars / value arrays only (no slices, pointers,
// maps, interfaces): its codec is modelled on the struct value itself.
func isFlatStruct(t types.Type) bool {
	if !isRefStruct(t) {
		return false
	}
	_, s := namedStruct(t)
	for i := 0; i < s.NumFields(); i++ {
		ft := s.Field(i).Type()
		switch u := ft.Underlying().(type) {
		case *types.Basic:
		case *types.Array:
			_ = u
		case *types.Struct:
			if !isOpaqueNamed(ft) && !isFlatStruct(ft) {
				return false
			}
		default:
			return false
		}
	}
	return true
}

func init() {
	bufRead := func(fr *Frame, st *State, c *ssa.CallCommon, args []Val, res ssa.Value) Val {
		// in-memory reader: fills p completely when that many bytes remain (one Bytes token of that length), else reads short
		v := fr.v
		id := fr.term(st, c.Args[0])
		b := fr.term(st, c.Args[1])
		blen := v.smt.declareFun("uf!blobLen", []string{"Int"}, "Int")
		okT, payload := v.readTok(st, id, fmt.Sprint(tkBytes), func(p string) string { return eq(app(blen, p), "(s.len "+b+")") })
		n := v.smt.fresh("bufrd.n", "Int")
		errT := v.smt.fresh("bufrd.err", "Iface")
		v.smt.assert(v.closedFact(errT, types.Universe.Lookup("error").Type(), v.alloc(st), 0))
		v.smt.assert(and("(<= 0 "+n+")", "(<= "+n+" (s.len "+b+"))", implies(okT, and(eq(n, "(s.len "+b+")"), eq(errT, "(mk-iface 0 0)")))))
		// err != nil only when nothing was read (io.EOF)
		v.smt.assert(implies(not(eq(errT, "(mk-iface 0 0)")), eq(n, "0")))
		bk := v.blobKey()
		fresh := v.smt.fresh("blob", "Int")
		v.setHeap(st, bk, sto(v.heap(st, bk), "(s.arr "+b+")", ite(okT, payload, fresh)))
		k := v.elemKey(types.Typ[types.Uint8])
		row := v.smt.fresh("bufrd.row", "(Array Int Int)")
		v.setHeap(st, k, sto(v.heap(st, k), "(s.arr "+b+")", row))
		out := Val{Tuple: []Val{{T: n}, {T: errT}}}
		fr.setResult(res, out)
		return out
	}
	rdMods := func(ms *ModSet, c *ssa.CallCommon) {
		readMods(ms, c)
		ms.add(kiElem(types.Typ[types.Uint8]))
		ms.add(KeyInfo{Key: "GH!blob", Ghost: "(Array Int Int)"})
	}
	reg("(*bytes.Buffer).Read", "in-memory read: full when the bytes are there (one Bytes token of that length), otherwise short; error only with n == 0", rdMods, bufRead)
	reg("(*bytes.Reader).Read", "in-memory read: full when the bytes are there (one Bytes token of that length), otherwise short; error only with n == 0", rdMods, bufRead)
	reg("(*bytes.Buffer).Write", "appends one Bytes token; never fails", func(ms *ModSet, c *ssa.CallCommon) {
		writeMods(ms, c)
		ms.add(KeyInfo{Key: "GH!blob", Ghost: "(Array Int Int)"})
	}, func(fr *Frame, st *State, c *ssa.CallCommon, args []Val, res ssa.Value) Val {
		v := fr.v
		id := fr.term(st, c.Args[0])
		b := fr.term(st, c.Args[1])
		blen := v.smt.declareFun("uf!blobLen", []string{"Int"}, "Int")
		payload := sel(v.heap(st, v.blobKey()), "(s.arr "+b+")")
		v.smt.assert(implies(st.reach, eq(app(blen, payload), "(s.len "+b+")")))
		v.writeTok(st, id, "true", fmt.Sprint(tkBytes), payload)
		out := Val{Tuple: []Val{{T: "(s.len " + b + ")"}, {T: "(mk-iface 0 0)"}}}
		fr.setResult(res, out)
		return out
	})
}

// ---- hashing into a digest (C18: which fields a signature hash covers) -----------------------

const maxDigestToks = 8

// tokList: the first n tokens of stream id as a cons-list term (n a Go-side constant).
func (v *FnVerifier) tokListSort() {
	v.streamKeys()
	v.smt.declSortRaw("TokList", "(declare-datatypes ((TokList 0)) (((tl.nil) (tl.cons (tl.head Tok) (tl.tail TokList)))))")
}

func (v *FnVerifier) digestFuns() (sumBlob, sum256, hash32 string) {
	v.tokListSort()
	sumBlob = v.smt.declareFun("uf!sumBlob", []string{"TokList"}, "Int")
	sum256 = v.smt.declareFun("uf!sum256", []string{"Int"}, "(Array Int Int)")
	hash32 = v.smt.declareFun("uf!hash32Of", []string{"(Array Int Int)", "Int"}, v.smt.sortOf(v.eng.lookupType(pkgBitcoin, "Hash32")))
	return
}

func init() {
	reg("crypto/sha256.New", "a new hash state: an empty token stream (what is written to it is recorded token by token)", func(ms *ModSet, c *ssa.CallCommon) {
		for _, k := range streamGhosts {
			k.FreshOnly = true
			ms.add(k)
		}
	}, func(fr *Frame, st *State, c *ssa.CallCommon, args []Val, res ssa.Value) Val {
		v := fr.v
		_, sn, sp := v.streamKeys()
		r := v.newRef(st, "sha")
		v.setHeap(st, sn, sto(v.heap(st, sn), r, "0"))
		v.setHeap(st, sp, sto(v.heap(st, sp), r, "0"))
		out := Val{T: fmt.Sprintf("(mk-iface %d %s)", v.typeTag(types.NewPointer(types.Typ[types.UnsafePointer])), r)}
		fr.setResult(res, out)
		return out
	})
	regInvoke("hash.Hash.Sum", fmt.Sprintf("Sum(nil) of a hash state: a 32-byte slice whose blob is an uninterpreted function of the list of tokens written (modelled for up to %d tokens, otherwise unconstrained)", maxDigestToks), func(ms *ModSet, c *ssa.CallCommon) {
		k := kiElem(types.Typ[types.Uint8])
		k.FreshOnly = true
		ms.add(k)
		ms.add(KeyInfo{Key: "GH!blob", Ghost: "(Array Int Int)", FreshOnly: true})
	}, func(fr *Frame, st *State, c *ssa.CallCommon, args []Val, res ssa.Value) Val {
		v := fr.v
		id := "(i.val " + args[0].T + ")"
		b := fr.term(st, c.Args[0])
		stk, sn, _ := v.streamKeys()
		sumBlob, _, _ := v.digestFuns()
		n := sel(v.heap(st, sn), id)
		toks := sel(v.heap(st, stk), id)
		arr := v.newRef(st, "sum")
		blob := v.smt.fresh("sum.blob", "Int")
		for k := 0; k <= maxDigestToks; k++ {
			l := "tl.nil"
			for i := k - 1; i >= 0; i-- {
				l = fmt.Sprintf("(tl.cons %s %s)", sel(toks, fmt.Sprint(i)), l)
			}
			v.smt.assert(implies(and(eq(n, fmt.Sprint(k)), eq("(s.len "+b+")", "0")), eq(blob, app(sumBlob, l))))
		}
		v.setHeap(st, v.blobKey(), sto(v.heap(st, v.blobKey()), arr, blob))
		out := Val{T: fmt.Sprintf("(mk-slice %s 0 (+ 32 (s.len %s)) (+ 32 (s.len %s)))", arr, b, b)}
		fr.setResult(res, out)
		return out
	})
	reg("crypto/sha256.Sum256", "an uninterpreted function of the blob of its argument", nil, func(fr *Frame, st *State, c *ssa.CallCommon, args []Val, res ssa.Value) Val {
		v := fr.v
		b := fr.term(st, c.Args[0])
		_, sum256, _ := v.digestFuns()
		out := Val{T: app(sum256, sel(v.heap(st, v.blobKey()), "(s.arr "+b+")"))}
		fr.setResult(res, out)
		return out
	})
}
