package main

// Loading /repo, building verification units, generating obligations.

import (
	"go/ast"
	"fmt"
	"go/types"
	"os"
	"sort"
	"strings"
	"time"

	"golang.org/x/tools/go/packages"
	"golang.org/x/tools/go/ssa"
	"golang.org/x/tools/go/ssa/ssautil"
)

type Engine struct {
	repo      string
	prog      *ssa.Program
	pkgs      map[string]*packages.Package
	allPkgs   []*packages.Package
	spkgs     map[string]*ssa.Package
	cs        *Contracts
	modsets   map[*ssa.Function]*ModSet
	loadS     float64
	funcs     map[string]*ssa.Function // contract key -> function
	sentinels map[string]int           // package-level error variables initialised by errors.New
	implCache map[string][]*ssa.Function
	// names and types of the parameters and named locals of the functions under contract as they
	// were when the baseline was recorded (baseline/locals.json): lets a contract follow a rename
	baseLocals map[string]map[string]string
	renames    map[string]bool
	// every function of the repository packages as of the baseline (baseline/functions.json): a
	// function that is not in it and has no contract is a helper somebody extracted - it is
	// executed as part of its caller (site assertions, ghost counters and loop ordinals carry over)
	baseFuncs map[string]bool
	loopExtra map[string]map[int]map[string]KeyInfo // function -> loop ordinal -> heaps the audit found written in the body
	baseGo    map[string]int // go statements executed per function under contract, as of the baseline
}

var repoPkgs = []string{"./internal/state", "./internal/storage", "./internal/spynode", "./internal/handlers", "./pkg/client"}

func LoadEngine(repo string) (*Engine, error) {
	t0 := time.Now()
	cfg := &packages.Config{Mode: packages.LoadAllSyntax, Dir: repo, BuildFlags: []string{"-tags=verif"},
		Env: append(os.Environ(), "GOFLAGS=-mod=mod", "GOPROXY=off", "GOSUMDB=off", "GOTOOLCHAIN=local")}
	pkgs, err := packages.Load(cfg, repoPkgs...)
	if err != nil {
		return nil, err
	}
	e := &Engine{repo: repo, pkgs: map[string]*packages.Package{}, spkgs: map[string]*ssa.Package{}, modsets: map[*ssa.Function]*ModSet{}, funcs: map[string]*ssa.Function{}, implCache: map[string][]*ssa.Function{}}
	var errs []string
	packages.Visit(pkgs, nil, func(p *packages.Package) {
		e.allPkgs = append(e.allPkgs, p)
		if strings.HasPrefix(p.PkgPath, "github.com/tokenized/spynode") {
			for _, er := range p.Errors {
				errs = append(errs, er.Error())
			}
		}
	})
	if len(errs) > 0 {
		return nil, fmt.Errorf("repository does not type-check: %s", strings.Join(errs, "; "))
	}
	prog, spkgs := ssautil.AllPackages(pkgs, ssa.GlobalDebug)
	prog.Build()
	e.prog = prog
	e.sentinels = map[string]int{}
	var gnames []string
	for _, sp := range prog.AllPackages() {
		init := sp.Func("init")
		if init == nil {
			continue
		}
		for _, b := range init.Blocks {
			for _, in := range b.Instrs {
				st, ok := in.(*ssa.Store)
				if !ok {
					continue
				}
				g, ok := st.Addr.(*ssa.Global)
				if !ok {
					continue
				}
				if call, ok := st.Val.(*ssa.Call); ok {
					if f := call.Common().StaticCallee(); f != nil {
						switch f.String() {
						case "errors.New", "github.com/pkg/errors.New", "fmt.Errorf", "github.com/pkg/errors.Errorf":
							gnames = append(gnames, g.String())
						}
					}
				}
			}
		}
	}
	sort.Strings(gnames)
	for i, n := range gnames {
		e.sentinels[n] = i + 1
	}
	dirs := map[string]string{}
	for i, p := range pkgs {
		e.pkgs[p.PkgPath] = p
		e.spkgs[p.PkgPath] = spkgs[i]
		if len(p.GoFiles) > 0 {
			d := p.GoFiles[0]
			dirs[p.PkgPath] = d[:strings.LastIndex(d, "/")]
		}
	}
	cs, err := LoadContracts(repo, dirs)
	if err != nil {
		return nil, err
	}
	e.cs = cs
	// resolve contract targets
	for key, fc := range cs.Funcs {
		sp := e.spkgs[fc.Pkg]
		if sp == nil {
			return nil, fmt.Errorf("contract %s: package not loaded", key)
		}
		fn := e.findFunc(sp, fc.Name)
		if fn == nil {
			// the target vanished: reported as a failed obligation by the caller
			continue
		}
		e.funcs[key] = fn
	}
	e.loadS = time.Since(t0).Seconds()
	return e, nil
}

func (e *Engine) findFunc(sp *ssa.Package, name string) *ssa.Function {
	if strings.HasPrefix(name, "(") {
		i := strings.Index(name, ").")
		recv := name[1:i]
		meth := name[i+2:]
		ptr := strings.HasPrefix(recv, "*")
		recv = strings.TrimPrefix(recv, "*")
		tm, ok := sp.Members[recv].(*ssa.Type)
		if !ok {
			return nil
		}
		var t types.Type = tm.Type()
		if ptr {
			t = types.NewPointer(t)
		}
		ms := e.prog.MethodSets.MethodSet(t)
		for i := 0; i < ms.Len(); i++ {
			if ms.At(i).Obj().Name() == meth {
				fn := e.prog.MethodValue(ms.At(i))
				if fn != nil && fn.Synthetic != "" && !ptr {
					continue
				}
				return fn
			}
		}
		return nil
	}
	if f, ok := sp.Members[name].(*ssa.Function); ok {
		return f
	}
	return nil
}

// ---------------------------------------------------------------------------------------

func (e *Engine) newVerifier(fn *ssa.Function, fc *FuncContract) *FnVerifier {
	v := &FnVerifier{loopOrdinals: map[int]bool{}, detached: map[ssa.Value]bool{}, eng: e, smt: NewSMT(), fn: fn, fc: fc, reg: newHeapReg(), mapTypes: map[string]*types.Map{},
		epochAlloc: map[int]string{}, inlined: map[string]bool{}, usedExt: map[string]string{}, usedContracts: map[string]bool{},
		typeTags: map[string]int{}, oblSeen: map[string]int{}, siteCount: map[string]int{}, heldKeys: map[string]bool{},
		guards: map[string]string{}, guardInfo: map[string]KeyInfo{}, assertHits: map[string]int{}, sentinelKeys: map[string]string{}}
	v.epochAlloc[0] = v.smt.declare("alloc@e0", "Int")
	v.smt.assert("(> alloc@e0 0)")
	return v
}

// setupGuards reads the type contract of the receiver type.
func (v *FnVerifier) setupGuards() {
	fn := v.fn
	if fn.Signature.Recv() == nil {
		return
	}
	rt := deref(fn.Signature.Recv().Type())
	n, ok := types.Unalias(rt).(*types.Named)
	if !ok {
		return
	}
	tc := v.eng.cs.Types[fkey(fn.Pkg.Pkg.Path(), n.Obj().Name())]
	if tc == nil {
		return
	}
	_, st := namedStruct(rt)
	for mu, fields := range tc.Guarded {
		var hk string
		for i := 0; i < st.NumFields(); i++ {
			if st.Field(i).Name() == mu {
				hk = v.heldKey(fieldKeyName(rt, st, i))
			}
		}
		if hk == "" {
			v.errs = append(v.errs, "guarded_by: no mutex field "+mu)
			continue
		}
		for _, f := range fields {
			parts := strings.SplitN(f, ".", 2)
			o := fn.Pkg.Pkg.Scope().Lookup(parts[0])
			if o == nil {
				v.errs = append(v.errs, "guarded_by: unknown type "+parts[0])
				continue
			}
			_, fst := namedStruct(o.Type())
			found := false
			for i := 0; fst != nil && i < fst.NumFields(); i++ {
				if fst.Field(i).Name() == parts[1] {
					ki := kiField(o.Type(), i)
					v.guards[ki.Key] = hk
					v.guardInfo[ki.Key] = ki
					found = true
				}
			}
			if !found {
				v.errs = append(v.errs, "guarded_by: unknown field "+f)
			}
		}
	}
}

// VerifyFunc generates all obligations for one function under contract.
// VerifyFunc runs the unit; when the loop-frame audit finds state that a loop body writes although it
// was not havocked at the loop head (engine-made snapshots, appends: not visible to the syntactic
// write set), the unit is generated again with those heaps added to the loop's havoc set.
func (e *Engine) VerifyFunc(fn *ssa.Function, fc *FuncContract) (v *FnVerifier) {
	for round := 0; ; round++ {
		v = e.verifyFuncOnce(fn, fc)
		if len(v.auditMissed) == 0 || round >= 3 {
			return v
		}
		if e.loopExtra == nil {
			e.loopExtra = map[string]map[int]map[string]KeyInfo{}
		}
		fk := fn.String()
		if e.loopExtra[fk] == nil {
			e.loopExtra[fk] = map[int]map[string]KeyInfo{}
		}
		grew := false
		for ord, kis := range v.auditMissed {
			if e.loopExtra[fk][ord] == nil {
				e.loopExtra[fk][ord] = map[string]KeyInfo{}
			}
			for k, ki := range kis {
				if _, ok := e.loopExtra[fk][ord][k]; !ok {
					e.loopExtra[fk][ord][k] = ki
					grew = true
				}
			}
		}
		if !grew {
			return v
		}
	}
}

func (e *Engine) verifyFuncOnce(fn *ssa.Function, fc *FuncContract) (v *FnVerifier) {
	v = e.newVerifier(fn, fc)
	defer func() {
		if r := recover(); r != nil {
			switch x := r.(type) {
			case outOfSubset:
				v.errs = append(v.errs, "out of subset: "+x.msg)
			case specErr:
				v.errs = append(v.errs, "contract error: "+x.msg)
			default:
				panic(r)
			}
		}
	}()
	v.setupGuards()
	st := &State{heaps: map[string]string{}, reach: "true", relock: map[string]bool{}}
	fr := &Frame{v: v, fn: fn, fc: fc, vals: map[ssa.Value]Val{}, outSt: map[*ssa.BasicBlock]*State{}, edges: map[[2]int]string{}, top: true, transparent: true, params: map[string]Val{}}
	fr.owner = fr
	v.top = fr
	var args []Val
	for _, p := range fn.Params {
		n := v.smt.declare("p!"+sanitize(p.Name()), v.smt.sortOf(p.Type()))
		v.smt.assert(v.closedFact(n, p.Type(), v.alloc(st), 0))
		args = append(args, Val{T: n})
		fr.vals[p] = Val{T: n}
		fr.params[p.Name()] = Val{T: n}
	}
	if fn.Signature.Recv() != nil && len(args) > 0 {
		if _, ok := fn.Signature.Recv().Type().Underlying().(*types.Pointer); ok {
			v.smt.assert("(not (= " + args[0].T + " 0))") // a method value on a nil receiver is the caller's fault
		}
	}
	v.entry = st.clone()
	// the pre-state must share lazily created heap versions with st: same epoch => same names
	for _, rq := range append(append([]*Clause(nil), fc.Requires...), fc.Given...) {
		env := fr.specEnv(st, nil)
		g, extra := env.boolTerm(rq.Expr)
		for _, x := range extra {
			v.smt.assertG(rq.Group, x)
		}
		v.smt.assertG(rq.Group, g)
	}
	// monitor operations start with the lock free unless stated otherwise
	if fc.Atomic != "" {
		for hk := range v.heldKeys {
			if recv := v.recvTerm(fr); recv != "" {
				v.smt.assert(not(sel(v.heap(st, hk), recv)))
			}
		}
	}
	if fc.Safety["allocbound"] || fc.Safety["all"] {
		budget := v.heap(st, v.ghostKey("inputBudget", "Int"))
		v.smt.assert(and("(<= 0 "+budget+")", "(< "+budget+" 1099511627776)")) // inputs are shorter than 2^40 bytes
	}
	// ghost counters of this function start at zero and are materialised up front (they survive havoc)
	for _, t := range strings.Fields(fc.Opts["track"]) {
		v.setHeap(st, v.ghostKey("ncalls!"+t, "Int"), "0")
	}
	if v.trackEnd() {
		v.setHeap(st, v.ghostKey("hitend", "(Array Int Bool)"), "((as const (Array Int Bool)) false)")
	}
	nk := v.ghostKey("nrecv", "(Array Int Int)")
	v.setHeap(st, nk, v.heap(st, nk))
	o := v.addObl(st, "cover", "entry", "false", "precondition is satisfiable", fc.Serves, fn.Pos())
	o.Cover = true
	fr.run(st, args)
	// what a spawned goroutine does is outside sequential reasoning: the go statements the function had
	// when the baseline was recorded are listed as assumptions; one more than that means the contract
	// no longer speaks about everything the function does in order
	if e.baseGo != nil {
		if base, ok := e.baseGo[fn.String()]; ok && v.goStmts > base {
			v.errs = append(v.errs, fmt.Sprintf("%d go statement(s) where the baseline had %d: work moved into a goroutine is outside the contract", v.goStmts, base))
		}
	}
	v.goCount = v.goStmts
	// every site assertion must have matched at least one site
	for _, as := range fc.Asserts {
		if v.assertHits[as.Label] == 0 && !as.IfAny {
			v.errs = append(v.errs, fmt.Sprintf("assert %s: no site matches %q", as.Label, as.Site))
		}
	}
	for n := range fc.Loops {
		found := v.loopOrdinals[n]
		if !found && n >= 0 {
			v.errs = append(v.errs, fmt.Sprintf("loop %d named in the contract does not exist", n))
		}
	}
	return v
}

// VerifyLemma: a closed formula over an arbitrary state.
func (e *Engine) VerifyLemma(ld *LemmaDef) *FnVerifier {
	sp := e.spkgs[ld.Pkg]
	// any function of the package gives the scope
	var anyFn *ssa.Function
	var names []string
	for n, m := range sp.Members {
		if _, ok := m.(*ssa.Function); ok {
			names = append(names, n)
		}
	}
	sort.Strings(names)
	for _, n := range names {
		f := sp.Members[n].(*ssa.Function)
		if f.Blocks != nil && f.Synthetic == "" {
			anyFn = f
			break
		}
	}
	fc := &FuncContract{Name: "lemma." + ld.Name, Pkg: ld.Pkg, Serves: ld.Serves, Loops: map[int]*LoopSpec{}, Safety: map[string]bool{}, Opts: map[string]string{}, Splits: map[string]*SplitSpec{}}
	v := e.newVerifier(anyFn, fc)
	v.isLemma = ld.Name
	defer func() {
		if r := recover(); r != nil {
			switch x := r.(type) {
			case outOfSubset:
				v.errs = append(v.errs, "out of subset: "+x.msg)
			case specErr:
				v.errs = append(v.errs, "contract error: "+x.msg)
			default:
				panic(r)
			}
		}
	}()
	st := &State{heaps: map[string]string{}, reach: "true", relock: map[string]bool{}}
	v.entry = st.clone()
	var extra []string
	env := &Env{v: v, st: st, old: v.entry, bound: map[string]specVal{}, lets: map[string]*Node{}, extra: &extra, pkg: sp.Pkg}
	for _, p := range ld.Params {
		if p.Kind != NTypeDecl {
			v.errs = append(v.errs, "lemma parameter needs a type: "+p.String())
			return v
		}
		t := env.resolveType(p.Args[0])
		n := v.smt.declare("p!"+sanitize(p.Name), v.smt.sortOf(t))
		v.smt.assert(v.closedFact(n, t, v.alloc(st), 0))
		env.bound[p.Name] = specVal{t: n, typ: t, st: st}
	}
	g, ex := env.boolTerm(ld.Body.Expr)
	o := v.addObl(st, "lemma", "", g, ld.Body.Text, ld.Serves, 0)
	o.Extra = ex
	return v
}

func (v *FnVerifier) unitName() string {
	if v.isLemma != "" {
		return shortPkg(v.fc.Pkg) + ".lemma." + v.isLemma
	}
	return shortPkg(v.fn.Pkg.Pkg.Path()) + "." + fnShort(v.fn)
}

// Query builds the SMT-LIB text of an obligation.
func (o *Obligation) Query() string {
	v := o.Unit
	var b strings.Builder
	b.WriteString(v.smt.Prelude())
	for _, a := range v.smt.axioms {
		b.WriteString("(assert ")
		b.WriteString(a)
		b.WriteString(")\n")
	}
	for i, a := range v.smt.asserts[:o.NAssert] {
		if g := v.smt.groups[i]; g != "" && g != o.Group {
			continue
		}
		b.WriteString("(assert ")
		b.WriteString(a)
		b.WriteString(")\n")
	}
	for _, a := range o.Extra {
		b.WriteString("(assert ")
		b.WriteString(a)
		b.WriteString(")\n")
	}
	if o.Guard != "true" {
		b.WriteString("(assert " + o.Guard + ")\n")
	}
	if !o.Cover {
		b.WriteString("(assert (not " + o.Goal + "))\n")
	}
	b.WriteString("(check-sat)\n")
	return b.String()
}

// importAlias resolves an import alias used in any file of the package.
func (e *Engine) importAlias(pkgPath, alias string) (string, bool) {
	p := e.pkgs[pkgPath]
	if p == nil {
		return "", false
	}
	for _, f := range p.Syntax {
		for _, im := range f.Imports {
			if im.Name != nil && im.Name.Name == alias {
				return strings.Trim(im.Path.Value, "\""), true
			}
		}
	}
	return "", false
}


// localsOf: every named parameter and local variable of fn with its type (a name declared twice
// with different types lists both).
func (e *Engine) localsOf(fn *ssa.Function) map[string]string {
	out := map[string]string{}
	add := func(name string, t types.Type) {
		if name == "" || name == "_" {
			return
		}
		ts := types.TypeString(t, nil)
		if old, ok := out[name]; ok {
			for _, o := range strings.Split(old, " | ") {
				if o == ts {
					return
				}
			}
			ts = old + " | " + ts
		}
		out[name] = ts
	}
	for _, p := range fn.Params {
		add(p.Name(), p.Type())
	}
	for _, b := range fn.Blocks {
		for _, in := range b.Instrs {
			if dr, ok := in.(*ssa.DebugRef); ok {
				if id, ok := dr.Expr.(*ast.Ident); ok {
					if !e.isLocalVar(fn, id) {
						continue
					}
					t := dr.X.Type()
					if dr.IsAddr {
						t = deref(t)
					}
					add(id.Name, t)
				}
			}
		}
	}
	return out
}

// renamedTo: the contract names a variable of fn that no longer exists; if exactly one variable of
// the same type has appeared since the baseline and the old name is gone, that is the same
// variable under its new name.
func (e *Engine) renamedTo(fn *ssa.Function, name string) string {
	base := e.baseLocals[fn.String()]
	if base == nil {
		return ""
	}
	typ, ok := base[name]
	if !ok {
		return ""
	}
	cur := e.localsOf(fn)
	if _, still := cur[name]; still {
		return ""
	}
	var cands []string
	for n, t := range cur {
		if _, was := base[n]; !was && t == typ {
			cands = append(cands, n)
		}
	}
	if len(cands) != 1 {
		return ""
	}
	if e.renames == nil {
		e.renames = map[string]bool{}
	}
	e.renames[fmt.Sprintf("%s: %s -> %s", fn.String(), name, cands[0])] = true
	return cands[0]
}

// isLocalVar: id denotes a variable declared inside a function (not a field, not package level).
func (e *Engine) isLocalVar(fn *ssa.Function, id *ast.Ident) bool {
	if fn.Pkg == nil {
		return false
	}
	p := e.pkgs[fn.Pkg.Pkg.Path()]
	if p == nil || p.TypesInfo == nil {
		return false
	}
	obj := p.TypesInfo.ObjectOf(id)
	vr, ok := obj.(*types.Var)
	if !ok || vr.IsField() {
		return false
	}
	return vr.Parent() != nil && vr.Parent() != p.Types.Scope() && vr.Parent() != types.Universe
}

// isNewHelper: an in-repo function with a body and no contract that did not exist when the
// baseline was recorded.
func (e *Engine) isNewHelper(f *ssa.Function) bool {
	return e.baseFuncs != nil && f != nil && f.Blocks != nil && e.inRepo(f) && !e.baseFuncs[f.String()] && e.contractOf(f) == nil
}

// repoFuncs: every function and method with a body in the repository packages.
func (e *Engine) repoFuncs() []string {
	var out []string
	for fn := range ssautil.AllFunctions(e.prog) {
		if fn.Blocks != nil && fn.Synthetic == "" && e.inRepo(fn) {
			out = append(out, fn.String())
		}
	}
	sort.Strings(out)
	return out
}

// ownLoopCount: loops of fn plus those of the new helpers it calls (the ordinals fn occupies when
// it is executed as part of a caller).
func (e *Engine) virtualLoopCount(fn *ssa.Function, depth int) int {
	n := 0
	for _, b := range fn.Blocks {
		hdr := false
		for _, p := range b.Preds {
			if b.Dominates(p) {
				hdr = true
			}
		}
		if hdr {
			n++
		}
		if depth < 4 {
			for _, in := range b.Instrs {
				if c, ok := in.(*ssa.Call); ok {
					if f, ok := c.Call.Value.(*ssa.Function); ok && !c.Call.IsInvoke() && e.isNewHelper(f) && e.extModel(f) == nil {
						n += e.virtualLoopCount(f, depth+1)
					}
				}
			}
		}
	}
	return n
}
