package main

// Symbolic execution of go/ssa function bodies into guarded SMT definitions (one pass over
// the acyclic CFG obtained by cutting loops at their headers).

import (
	"os"
	"strconv"
	"fmt"
	"go/constant"
	"go/token"
	"go/types"
	"sort"
	"strings"

	"golang.org/x/tools/go/ssa"
)

type Obligation struct {
	Name    string
	Props   []string
	Kind    string // ensures, requires, inv.init, inv.keep, assert, safety, lemma, cover, monitor
	Fn      string
	NAssert int      // number of assertions of the unit's context that are premises
	Extra   []string // extra premises (skolem definitions)
	Guard   string   // path condition
	Goal    string
	Text    string // human-readable source of the goal
	Cover   bool   // expects sat
	Group   string // assumption group (see Clause.Group)
	Known   bool   // listed in known_findings.json: a short attempt is enough
	Unit    *FnVerifier
	Pos     string

	// results
	Verdict string // discharged, failed, undecided, cover-ok, cover-failed
	Solver  string
	TimeS   float64
	Output  string
	File    string
}

type FnVerifier struct {
	auditMissed   map[int]map[string]KeyInfo // loop ordinal -> heaps written in the body but not havocked at the head
	goCount       int
	goStmts       int // go statements met in the function under contract (and the helpers executed as part of it)
	detached      map[ssa.Value]bool // results of slice-to-array-pointer conversions
	loopOrdinals  map[int]bool // loop ordinals met in the function and the new helpers executed as part of it
	eng           *Engine
	smt           *SMT
	fn            *ssa.Function
	fc            *FuncContract
	reg           *heapReg
	mapTypes      map[string]*types.Map
	epochAlloc    map[int]string
	nEpoch        int
	obls          []*Obligation
	entry         *State // pre-state (for old())
	top           *Frame
	errs          []string
	havocked      []string // callees treated as havoc-all
	inlined       map[string]bool
	usedExt       map[string]string
	usedContracts map[string]bool
	typeTags      map[string]int
	payloadAx     bool
	macCache      map[string]string
	oblSeen       map[string]int
	siteCount     map[string]int
	lockBase      *State // state at first Lock (old() for atomic functions)
	heldKeys      map[string]bool
	guards        map[string]string // heap key -> held key
	guardInfo     map[string]KeyInfo
	assertHits    map[string]int
	nIter         int
	lastNow       string
	isLemma       string
	sentinelKeys  map[string]string
}

type Frame struct {
	v        *FnVerifier
	fn       *ssa.Function
	fc       *FuncContract
	vals     map[ssa.Value]Val
	prefix   string
	depth    int
	outSt    map[*ssa.BasicBlock]*State
	edges    map[[2]int]string // edge condition (including source reach)
	loops    map[*ssa.BasicBlock]*loopInfo
	exits    []exitInfo
	top      bool
	params   map[string]Val
	parent   *Frame
	curBlock *ssa.BasicBlock
	entry    *State // pre-state of this activation (inlined callees: old() is relative to the call)
	// transparent: the function under contract itself, or a helper extracted from it since the
	// baseline (no contract of its own): its call sites, ghost counters and loops are the caller's
	transparent bool
	// owner: the frame whose contract governs this one - itself for the function under contract
	// and for inlined callees that have a contract, the caller's owner for an extracted helper
	owner    *Frame
	loopBase    int               // ordinal of this frame's first loop (transparent helpers continue the caller's numbering)
	sendVal     *specVal          // value of the send being asserted about ("v" in `assert … at send`)
	callBase    map[*ssa.Call]int // first ordinal reserved for the loops of a new helper called here
}

type exitInfo struct {
	st      *State
	results []Val
}

type loopInfo struct {
	header  *ssa.BasicBlock
	ordinal int
	blocks  []*ssa.BasicBlock
	inLoop  map[*ssa.BasicBlock]bool
	spec    *LoopSpec
	names   map[string]ssa.Value // source names visible in invariants
	mods    *ModSet
	pre     *State // state on first arrival at the header (for sinceloop())
	// audit of the loop frame: the heap terms right after the havoc at the head and the set that was
	// havocked - whatever differs at a back edge must have been in that set
	headHeaps map[string]string
	headEpoch int
	headMods  *ModSet
}

type outOfSubset struct{ msg string }

func (v *FnVerifier) unsupported(f string, a ...interface{}) {
	panic(outOfSubset{fmt.Sprintf(f, a...)})
}

func (v *FnVerifier) oblName(kind, label string) string {
	base := v.unitName() + "." + kind
	if label != "" {
		base += "." + label
	}
	v.oblSeen[base]++
	if n := v.oblSeen[base]; n > 1 {
		base = fmt.Sprintf("%s~%d", base, n)
	}
	return base
}

func shortPkg(p string) string {
	i := strings.LastIndex(p, "/")
	return p[i+1:]
}

func fnShort(fn *ssa.Function) string {
	if recv := fn.Signature.Recv(); recv != nil {
		t := recv.Type()
		if p, ok := t.(*types.Pointer); ok {
			t = p.Elem()
		}
		if n, ok := types.Unalias(t).(*types.Named); ok {
			return n.Obj().Name() + "." + fn.Name()
		}
	}
	return fn.Name()
}

func (v *FnVerifier) addObl(st *State, kind, label, goal, text string, props []string, pos token.Pos) *Obligation {
	o := &Obligation{Name: v.oblName(kind, label), Kind: kind, Fn: v.fn.String(), NAssert: len(v.smt.asserts),
		Guard: st.reach, Goal: goal, Text: text, Props: props, Unit: v}
	if pos.IsValid() {
		p := v.eng.prog.Fset.Position(pos)
		o.Pos = fmt.Sprintf("%s:%d", p.Filename, p.Line)
	}
	if len(o.Props) == 0 && v.fc != nil && kind == "safety" && len(v.fc.SafetyProps) > 0 {
		o.Props = v.fc.SafetyProps
	}
	if len(o.Props) == 0 && v.fc != nil {
		o.Props = v.fc.Serves
	}
	v.obls = append(v.obls, o)
	return o
}

// ---------------------------------------------------------------------------------------

func (fr *Frame) val(x ssa.Value) Val {
	if v, ok := fr.vals[x]; ok {
		return v
	}
	switch c := x.(type) {
	case *ssa.Const:
		return Val{T: fr.v.constTerm(c)}
	case *ssa.Global:
		t := deref(c.Type())
		return Val{Loc: &Loc{key: fr.v.globalKey(c.String(), t), cellT: t, T: t}}
	case *ssa.Function:
		return Val{T: fr.v.smt.declare("fn!"+sanitize(c.String()), "Int")}
	case *ssa.Builtin:
		return Val{T: "0"}
	}
	fr.v.unsupported("value %s (%T) used before definition in %s", x.Name(), x, fr.fn)
	return Val{}
}

func (v *FnVerifier) constTerm(c *ssa.Const) string {
	t := c.Type()
	if c.Value == nil {
		return v.smt.zeroOf(t)
	}
	switch c.Value.Kind() {
	case constant.Bool:
		if constant.BoolVal(c.Value) {
			return "true"
		}
		return "false"
	case constant.Int:
		s := c.Value.ExactString()
		if strings.HasPrefix(s, "-") {
			return "(- " + s[1:] + ")"
		}
		return s
	case constant.String:
		return v.smt.strLit(constant.StringVal(c.Value))
	case constant.Float:
		f, _ := constant.Float64Val(c.Value)
		return fmt.Sprintf("%f", f)
	}
	v.unsupported("constant %s", c)
	return ""
}

// term gives the SMT term of a non-location value.
func (fr *Frame) term(st *State, x ssa.Value) string {
	val := fr.val(x)
	if val.Loc != nil {
		// pointer used as a value: snapshot
		return fr.v.materialize(st, val, deref(x.Type()), x.Name()+" in "+fr.fn.Name())
	}
	return val.T
}

func (fr *Frame) name(x ssa.Value) string {
	return fr.prefix + x.Name()
}

func (fr *Frame) defVal(x ssa.Value, term string) {
	sortS := fr.v.smt.sortOf(x.Type())
	n := fr.v.smt.define(fr.name(x), sortS, term)
	fr.vals[x] = Val{T: n}
}

func (fr *Frame) freshVal(x ssa.Value) string {
	sortS := fr.v.smt.sortOf(x.Type())
	n := fr.v.smt.fresh(fr.name(x), sortS)
	fr.vals[x] = Val{T: n}
	return n
}

// ---------------------------------------------------------------------------------------

func (fr *Frame) analyzeLoops() {
	fr.loops = map[*ssa.BasicBlock]*loopInfo{}
	var headers []*ssa.BasicBlock
	backSrc := map[*ssa.BasicBlock][]*ssa.BasicBlock{}
	for _, b := range fr.fn.Blocks {
		for _, s := range b.Succs {
			if s.Dominates(b) {
				if _, ok := backSrc[s]; !ok {
					headers = append(headers, s)
				}
				backSrc[s] = append(backSrc[s], b)
			}
		}
	}
	// loops are numbered in source order (smallest source position inside the loop; an enclosing
	// loop before the loops it contains), whatever their form (for / range). A call to a helper
	// that was extracted since the baseline reserves, at its position, as many ordinals as the
	// helper has loops: a loop moved into a helper keeps its number.
	srcPos := map[*ssa.BasicBlock]int{}
	for _, h := range headers {
		srcPos[h] = fr.loopSrcPos(h, backSrc[h])
	}
	sort.SliceStable(headers, func(i, j int) bool {
		if srcPos[headers[i]] != srcPos[headers[j]] {
			return srcPos[headers[i]] < srcPos[headers[j]]
		}
		if headers[i].Dominates(headers[j]) != headers[j].Dominates(headers[i]) {
			return headers[i].Dominates(headers[j])
		}
		return headers[i].Index < headers[j].Index
	})
	type vcall struct {
		c   *ssa.Call
		pos int
		n   int
	}
	var vcalls []vcall
	if fr.owner != nil && fr.depth < 4 {
		for _, b := range fr.fn.Blocks {
			for _, in := range b.Instrs {
				if c, ok := in.(*ssa.Call); ok && !c.Call.IsInvoke() {
					if f, ok := c.Call.Value.(*ssa.Function); ok && fr.v.eng.isNewHelper(f) && fr.v.eng.extModel(f) == nil {
						if n := fr.v.eng.virtualLoopCount(f, fr.depth+1); n > 0 {
							vcalls = append(vcalls, vcall{c, int(c.Pos()), n})
						}
					}
				}
			}
		}
		sort.SliceStable(vcalls, func(i, j int) bool { return vcalls[i].pos < vcalls[j].pos })
	}
	fr.callBase = map[*ssa.Call]int{}
	ordinalOf := map[*ssa.BasicBlock]int{}
	{
		next, ci := fr.loopBase, 0
		for _, h := range headers {
			for ci < len(vcalls) && vcalls[ci].pos < srcPos[h] {
				fr.callBase[vcalls[ci].c] = next
				next += vcalls[ci].n
				ci++
			}
			ordinalOf[h] = next
			next++
		}
		for ; ci < len(vcalls); ci++ {
			fr.callBase[vcalls[ci].c] = next
			next += vcalls[ci].n
		}
	}
	if os.Getenv("GOVC_DEBUG_LOOPS") != "" && fr.top {
		for _, h := range headers {
			i := ordinalOf[h]
			fmt.Fprintf(os.Stderr, "LOOPS %s old=%d header=%s(%d) hpos=%d srcpos=%d\n", fr.fn.String(), i, h.Comment, h.Index, fr.headerPos(h), fr.loopSrcPos(h, backSrc[h]))
		}
	}
	for _, h := range headers {
		i := ordinalOf[h]
		if fr.transparent {
			fr.v.loopOrdinals[i] = true
		}
		li := &loopInfo{header: h, ordinal: i, inLoop: map[*ssa.BasicBlock]bool{h: true}, names: map[string]ssa.Value{}}
		// natural loop: blocks that reach a back-edge source without passing through h
		var stack []*ssa.BasicBlock
		for _, s := range backSrc[h] {
			if !li.inLoop[s] {
				li.inLoop[s] = true
				stack = append(stack, s)
			}
		}
		for len(stack) > 0 {
			b := stack[len(stack)-1]
			stack = stack[:len(stack)-1]
			for _, p := range b.Preds {
				if !li.inLoop[p] {
					li.inLoop[p] = true
					stack = append(stack, p)
				}
			}
		}
		for _, b := range fr.fn.Blocks {
			if li.inLoop[b] {
				li.blocks = append(li.blocks, b)
			}
		}
		lfc := fr.fc
		if fr.owner != nil {
			lfc = fr.owner.fc
		}
		if lfc != nil {
			li.spec = lfc.Loops[i]
			if li.spec == nil {
				li.spec = lfc.Loops[-1]
			}
		}
		li.mods = fr.v.eng.blocksMods(li.blocks, li.inLoop)
		// names: phis by their comment, range index by DebugRef
		for _, in := range h.Instrs {
			if phi, ok := in.(*ssa.Phi); ok {
				if phi.Comment != "" && phi.Comment != "rangeindex" {
					li.names[phi.Comment] = phi
				}
				if phi.Comment == "rangeindex" {
					// next instruction is phi+1
					for _, in2 := range h.Instrs {
						if bo, ok := in2.(*ssa.BinOp); ok && bo.X == phi && bo.Op == token.ADD {
							li.names["_i"] = bo
							li.names[fmt.Sprintf("_i%d", i)] = bo
							for _, lb := range li.blocks {
								for _, in3 := range lb.Instrs {
									if dr, ok := in3.(*ssa.DebugRef); ok && dr.X == bo {
										if id, ok := dr.Expr.(interface{ String() string }); ok {
											li.names[id.String()] = bo
										}
									}
								}
							}
						}
					}
				}
			}
		}
		// a classic counting loop (for i := a; …; i++): its single induction variable also answers to
		// _i, so that invariants survive a change of loop form or a renamed counter
		if _, have := li.names["_i"]; !have {
			var ind []*ssa.Phi
			for _, in := range h.Instrs {
				phi, ok := in.(*ssa.Phi)
				if !ok {
					continue
				}
				for _, e := range phi.Edges {
					if bo, ok := e.(*ssa.BinOp); ok && (bo.Op == token.ADD || bo.Op == token.SUB) && bo.X == phi {
						if c, ok := bo.Y.(*ssa.Const); ok && c.Value != nil && c.Value.ExactString() == "1" && li.inLoop[bo.Block()] {
							ind = append(ind, phi)
						}
					}
				}
			}
			if len(ind) == 1 {
				li.names["_i"] = ind[0]
				li.names[fmt.Sprintf("_i%d", i)] = ind[0]
			}
		}
		fr.loops[h] = li
	}
}

// loopSrcPos: smallest source position of any instruction in the natural loop of h.
func (fr *Frame) loopSrcPos(h *ssa.BasicBlock, back []*ssa.BasicBlock) int {
	in := map[*ssa.BasicBlock]bool{h: true}
	stack := append([]*ssa.BasicBlock{}, back...)
	for _, b := range back {
		in[b] = true
	}
	for len(stack) > 0 {
		b := stack[len(stack)-1]
		stack = stack[:len(stack)-1]
		for _, p := range b.Preds {
			if !in[p] {
				in[p] = true
				stack = append(stack, p)
			}
		}
	}
	best := 1 << 30
	for b := range in {
		for _, ins := range b.Instrs {
			if ins.Pos().IsValid() && int(ins.Pos()) < best {
				best = int(ins.Pos())
			}
		}
	}
	return best
}

func (fr *Frame) headerPos(b *ssa.BasicBlock) int {
	for _, in := range b.Instrs {
		if in.Pos().IsValid() {
			return int(in.Pos())
		}
	}
	// fall back to any instruction position in successor blocks
	return 1<<30 + b.Index
}

// topoOrder: reverse postorder over forward edges only.
func (fr *Frame) topoOrder() []*ssa.BasicBlock {
	seen := map[*ssa.BasicBlock]bool{}
	var post []*ssa.BasicBlock
	var dfs func(b *ssa.BasicBlock)
	dfs = func(b *ssa.BasicBlock) {
		seen[b] = true
		for _, s := range b.Succs {
			if s.Dominates(b) { // back edge
				continue
			}
			if !seen[s] {
				dfs(s)
			}
		}
		post = append(post, b)
	}
	dfs(fr.fn.Blocks[0])
	for i, j := 0, len(post)-1; i < j; i, j = i+1, j-1 {
		post[i], post[j] = post[j], post[i]
	}
	return post
}

// run executes the frame's function from state st with the given argument values.
func (fr *Frame) run(st0 *State, args []Val) {
	v := fr.v
	fn := fr.fn
	if fn.Blocks == nil {
		v.unsupported("function %s has no body", fn)
	}
	for i, p := range fn.Params {
		fr.vals[p] = args[i]
		fr.params[p.Name()] = args[i]
	}
	if len(fn.FreeVars) > 0 {
		v.unsupported("closure %s with free variables", fn)
	}
	fr.analyzeLoops()
	order := fr.topoOrder()
	for _, b := range order {
		if fn.Recover != nil && b == fn.Recover {
			continue
		}
		var st *State
		li := fr.loops[b]
		if b.Index == 0 {
			st = st0
		} else {
			st = fr.mergeInto(b, li)
			if st == nil {
				continue // unreachable (only back edges or recover)
			}
		}
		if li != nil {
			st = fr.enterLoop(b, li, st)
		}
		fr.execBlock(b, st)
	}
}

// afterLoopAsserts: site assertions "at afterloop N" are checked on every edge that leaves the
// region dominated by the header of loop N (normal exit, break bodies and the code that follows
// the loop in the same branch included), in the state at the end of the source block. sinceloop() refers to the state on first arrival at the header.
func (fr *Frame) afterLoopAsserts(from, to *ssa.BasicBlock, st *State, cond string) {
	v := fr.v
	if v.fc == nil || !fr.transparent || len(v.fc.Asserts) == 0 {
		return
	}
	for _, as := range v.fc.Asserts {
		w := strings.Fields(as.Site)
		if len(w) != 2 || w[0] != "afterloop" {
			continue
		}
		n, err := strconv.Atoi(w[1])
		if err != nil {
			continue
		}
		for _, li := range fr.loops {
			// "after loop N": control leaves the region dominated by the loop's header (the loop, its
			// break bodies and whatever follows it in the same branch)
			if li.ordinal != n || !li.header.Dominates(from) || to != nil && li.header.Dominates(to) {
				continue
			}
			env := fr.specEnv(st, nil)
			env.retBlock = from
			env.atSite = true
			env.li = li
			g, extra := env.boolTerm(as.Cl.Expr)
			v.siteCount["assert."+as.Label]++
			pos := from.Instrs[len(from.Instrs)-1].Pos()
			o := v.addObl(st, "assert", fmt.Sprintf("%s#%d", as.Label, v.siteCount["assert."+as.Label]), implies(cond, g), as.Cl.Text, pickProps(as.Cl, v.fc.Serves), pos)
			o.Extra = extra
			o.Group = as.Cl.Group
			v.siteCover(st, o)
			v.anteCovers(st, env, o, as.Cl.Expr, cond)
			v.assertHits[as.Label]++
		}
	}
}

// mergeInto computes the entry state of b from its forward predecessors, defining phis.
func (fr *Frame) mergeInto(b *ssa.BasicBlock, li *loopInfo) *State {
	v := fr.v
	type inc struct {
		idx  int
		st   *State
		cond string
	}
	var incs []inc
	for i, p := range b.Preds {
		if b.Dominates(p) {
			continue // back edge
		}
		ps, ok := fr.outSt[p]
		if !ok {
			continue
		}
		c, ok := fr.edges[[2]int{p.Index, b.Index}]
		if !ok {
			continue
		}
		incs = append(incs, inc{i, ps, c})
	}
	if len(incs) == 0 {
		return nil
	}
	var st *State
	if len(incs) == 1 {
		st = incs[0].st.clone()
		st.reach = incs[0].cond
	} else {
		st = incs[0].st.clone()
		var conds []string
		for _, in := range incs {
			conds = append(conds, in.cond)
		}
		st.reach = v.smt.define(fmt.Sprintf("%sreach.b%d", fr.prefix, b.Index), "Bool", or(conds...))
		// epochs
		sameEpoch := true
		for _, in := range incs[1:] {
			if in.st.epoch != incs[0].st.epoch {
				sameEpoch = false
			}
		}
		keys := map[string]bool{}
		for _, in := range incs {
			for k := range in.st.heaps {
				keys[k] = true
			}
		}
		if !sameEpoch {
			for k := range v.reg.sort {
				keys[k] = true
			}
			v.nEpoch++
			st.epoch = v.nEpoch
			na := v.smt.fresh("alloc", "Int")
			v.epochAlloc[st.epoch] = na
			for _, in := range incs {
				v.smt.assert(implies(in.cond, "(>= "+na+" "+v.alloc(in.st)+")"))
			}
			keys[allocKey] = true
		}
		var ks []string
		for k := range keys {
			ks = append(ks, k)
		}
		sort.Strings(ks)
		for _, k := range ks {
			var terms []string
			same := true
			for _, in := range incs {
				var t string
				if k == allocKey {
					t = v.alloc(in.st)
				} else {
					t = v.heap(in.st, k)
				}
				terms = append(terms, t)
				if t != terms[0] {
					same = false
				}
			}
			if same {
				st.heaps[k] = terms[0]
				continue
			}
			t := terms[len(terms)-1]
			for i := len(terms) - 2; i >= 0; i-- {
				t = ite(incs[i].cond, terms[i], t)
			}
			sortS := "Int"
			if k != allocKey {
				sortS = v.reg.sort[k]
			}
			st.heaps[k] = v.smt.define(k, sortS, t)
		}
		// defers must agree
		for _, in := range incs[1:] {
			if len(in.st.defers) != len(incs[0].st.defers) {
				v.unsupported("defer stacks differ at join b%d of %s", b.Index, fr.fn)
			}
			for k := range in.st.relock {
				st.relock[k] = true
			}
		}
	}
	// phis
	for _, in := range b.Instrs {
		phi, ok := in.(*ssa.Phi)
		if !ok {
			break
		}
		if li != nil {
			continue // loop header phis are handled in enterLoop
		}
		var terms []string
		for _, ic := range incs {
			terms = append(terms, fr.term(ic.st, phi.Edges[ic.idx]))
		}
		t := terms[len(terms)-1]
		for i := len(terms) - 2; i >= 0; i-- {
			t = ite(incs[i].cond, terms[i], t)
		}
		fr.defVal(phi, t)
	}
	if li != nil {
		// remember entry-edge phi values
		li2 := li
		_ = li2
		for _, in := range b.Instrs {
			phi, ok := in.(*ssa.Phi)
			if !ok {
				break
			}
			var terms []string
			for _, ic := range incs {
				terms = append(terms, fr.term(ic.st, phi.Edges[ic.idx]))
			}
			t := terms[len(terms)-1]
			for i := len(terms) - 2; i >= 0; i-- {
				t = ite(incs[i].cond, terms[i], t)
			}
			fr.vals[phi] = Val{T: t} // temporarily: entry value (used for inv.init)
		}
	}
	return st
}

// overlayEval evaluates pure header instructions under the current phi bindings.
func (fr *Frame) pureTerm(st *State, x ssa.Value, li *loopInfo) string {
	if val, ok := fr.vals[x]; ok && val.Loc == nil {
		if _, isPhi := x.(*ssa.Phi); isPhi || !li.definedInHeader(x) {
			return val.T
		}
	}
	switch in := x.(type) {
	case *ssa.BinOp:
		if li.definedInHeader(x) {
			return fr.v.binop(in.Op, fr.pureTerm(st, in.X, li), fr.pureTerm(st, in.Y, li), in.X.Type(), in.Type())
		}
	case *ssa.Const:
		return fr.v.constTerm(in)
	}
	return fr.term(st, x)
}

func (li *loopInfo) definedInHeader(x ssa.Value) bool {
	in, ok := x.(ssa.Instruction)
	return ok && in.Block() == li.header
}

// loopTrackedKeys: ghost keys of the tracked callees (opt track) that are called inside loop li -
// directly, or possibly through a helper executed as part of this function.
func (fr *Frame) loopTrackedKeys(li *loopInfo) []KeyInfo {
	v := fr.v
	if !fr.transparent || v.fc == nil || v.fc.Opts["track"] == "" {
		return nil
	}
	tracked := map[string]bool{}
	for _, t := range strings.Fields(v.fc.Opts["track"]) {
		tracked[t] = true
	}
	hit := map[string]bool{}
	var scan func(blocks []*ssa.BasicBlock, depth int)
	scan = func(blocks []*ssa.BasicBlock, depth int) {
		for _, b := range blocks {
			for _, in := range b.Instrs {
				var c *ssa.CallCommon
				switch x := in.(type) {
				case *ssa.Call:
					c = x.Common()
				case *ssa.Defer:
					c = x.Common()
				}
				if c == nil {
					continue
				}
				if c.IsInvoke() {
					if tracked[c.Method.Name()] {
						hit[c.Method.Name()] = true
					}
				} else if f, ok := c.Value.(*ssa.Function); ok {
					if tracked[f.Name()] {
						hit[f.Name()] = true
					}
					if v.eng.isNewHelper(f) && depth < 4 {
						// a helper executed as part of this function: the tracked calls it makes count too
						scan(f.Blocks, depth+1)
					}
				}
			}
		}
	}
	scan(li.blocks, 0)
	var out []KeyInfo
	var keys []string
	for k := range v.reg.sort {
		keys = append(keys, k)
	}
	sort.Strings(keys)
	for _, k := range keys {
		for t := range hit {
			if k == "GH!ncalls!"+t || strings.HasPrefix(k, "GH!lastarg!"+t+"!") || strings.HasPrefix(k, "GH!lastres!"+t+"!") {
				out = append(out, KeyInfo{Key: k, Ghost: v.reg.sort[k]})
			}
		}
	}
	return out
}

func (fr *Frame) enterLoop(b *ssa.BasicBlock, li *loopInfo, st *State) *State {
	v := fr.v
	if li.spec == nil || len(li.spec.Invariants) == 0 {
		v.unsupported("loop %d in %s (block %d) has no invariant", li.ordinal, fr.fn, b.Index)
	}
	props := fr.propsOf()
	li.pre = st.clone()
	// init: invariant holds on entry (phis = entry values, set by mergeInto)
	for k, inv := range li.spec.Invariants {
		env := fr.specEnv(st, li)
		g, extra := env.boolTerm(inv.Expr)
		o := v.addObl(st, "inv.init", fmt.Sprintf("loop%d.%s", li.ordinal, clLabel(inv, k)), g, inv.Text, pickProps(inv, props), b.Instrs[0].Pos())
		o.Extra = extra
		o.Group = inv.Group
	}
	// generic iteration: havoc
	pre := st
	li.pre = pre.clone()
	st = st.clone()
	mods := li.mods
	// the ghost counters of tracked calls (opt track: ncalls / lastarg / lastres) change in a loop
	// that makes such a call
	if fr.transparent {
		if ex := v.eng.loopExtra[v.fn.String()][li.ordinal]; len(ex) > 0 {
			m2 := newModSet()
			m2.union(mods)
			for _, ki := range ex {
				m2.add(ki)
			}
			mods = m2
			v.smt.note(fmt.Sprintf("loop %d: havoc set extended by the loop-frame audit (engine-made snapshots / appends written in the body)", li.ordinal))
		}
	}
	if tk := fr.loopTrackedKeys(li); len(tk) > 0 {
		m2 := newModSet()
		m2.union(mods)
		for _, ki := range tk {
			m2.add(ki)
		}
		mods = m2
	}
	for _, ki := range mods.Keys {
		v.ensureKey(ki)
	}
	preTerms := map[string]string{}
	for k := range mods.Keys {
		preTerms[k] = v.heap(pre, k)
	}
	allocPre := v.alloc(pre)
	if mods.All {
		v.havocked = append(v.havocked, fmt.Sprintf("loop %d of %s (ALL: %s)", li.ordinal, fr.fn.Name(), strings.Join(mods.Why, "; ")))
	}
	v.havocKeys(st, mods)
	li.headHeaps = map[string]string{}
	for k, t := range st.heaps {
		li.headHeaps[k] = t
	}
	li.headEpoch = st.epoch
	li.headMods = v.effectiveMods(mods)
	if mods.All {
		// (a havoc of everything keeps the function's own counters: callees cannot change them - but
		// this loop does)
		for _, ki := range fr.loopTrackedKeys(li) {
			st.heaps[ki.Key] = v.smt.fresh(ki.Key, ki.Ghost)
		}
	}
	if !mods.All {
		lf := v.eng.loopFrameInfo(li)
		for k, ki := range mods.Keys {
			if ki.FreshOnly || lf.dirty[k] || lf.dirty["*"] {
				continue // FreshOnly already framed by havocKeys
			}
			if ki.Ghost != "" || ki.VisitedOf != nil {
				continue // ghost state is written by models, not by store instructions: no syntactic frame
			}
			var except []string
			ok := true
			for _, t := range lf.targets[k] {
				val, have := fr.vals[t]
				if !have || val.Loc != nil {
					ok = false
					break
				}
				except = append(except, val.T)
			}
			if ok {
				v.frameOld(k, preTerms[k], st.heaps[k], allocPre, except)
			}
		}
	}
	for _, in := range b.Instrs {
		phi, ok := in.(*ssa.Phi)
		if !ok {
			break
		}
		n := fr.freshVal(phi)
		v.smt.assert(v.closedFact(n, phi.Type(), v.alloc(st), 0))
	}
	for _, inv := range li.spec.Invariants {
		env := fr.specEnv(st, li)
		g, extra := env.boolTerm(inv.Expr)
		for _, e := range extra {
			v.smt.assertG(inv.Group, e)
		}
		v.smt.assertG(inv.Group, implies(st.reach, g))
	}
	return st
}

func clLabel(c *Clause, k int) string {
	if c.Label != "" {
		return c.Label
	}
	return fmt.Sprintf("%d", k)
}

// pickProps: a clause counts for every property its function serves; properties named on the clause
// are added to those. Only `[only …]` restricts (clauses that carry a recorded finding of one
// property must not fail the checks of the others).
func pickProps(c *Clause, def []string) []string {
	if c.Only {
		return c.Props
	}
	if len(c.Props) == 0 {
		return def
	}
	out := append([]string{}, def...)
	for _, p := range c.Props {
		dup := false
		for _, q := range out {
			if q == p {
				dup = true
			}
		}
		if !dup {
			out = append(out, p)
		}
	}
	return out
}

func (fr *Frame) propsOf() []string {
	if fr.v.fc != nil {
		return fr.v.fc.Serves
	}
	return nil
}

// backEdge: check invariant preservation for edge from block p (state st, cond) to header h.
func (fr *Frame) backEdge(p *ssa.BasicBlock, h *ssa.BasicBlock, st *State, cond string) {
	v := fr.v
	li := fr.loops[h]
	// bind phis to back-edge values temporarily
	saved := map[ssa.Value]Val{}
	idx := -1
	for i, q := range h.Preds {
		if q == p {
			idx = i
		}
	}
	var phis []*ssa.Phi
	var newVals []Val
	for _, in := range h.Instrs {
		phi, ok := in.(*ssa.Phi)
		if !ok {
			break
		}
		phis = append(phis, phi)
		newVals = append(newVals, Val{T: fr.term(st, phi.Edges[idx])})
	}
	for i, phi := range phis {
		saved[phi] = fr.vals[phi]
		fr.vals[phi] = newVals[i]
	}
	// audit: a heap (ghost or real) whose term at the end of the body differs from its term at the
	// loop head was written in the body, so it must have been havocked at the head; if it was not,
	// the generic iteration started from a state that is too specific and what follows the loop is
	// only proved for some iteration counts - an error of the generator, reported as such
	if li.headMods != nil && !li.headMods.All && st.epoch == li.headEpoch {
		var missed []string
		for k, t := range st.heaps {
			if k == allocKey {
				continue
			}
			if _, in := li.headMods.Keys[k]; in {
				continue
			}
			if ht, ok := li.headHeaps[k]; ok && ht != t {
				missed = append(missed, k)
			} else if !ok {
				if strings.HasPrefix(k, "GH!lastarg!") || strings.HasPrefix(k, "GH!lastres!") {
					// first set inside the body: at the head it is the entry symbol, which nothing constrains
					continue
				}
				if _, reg := v.reg.sort[k]; reg && t != fmt.Sprintf("%s@e%d", k, st.epoch) {
					missed = append(missed, k)
				}
			}
		}
		if len(missed) > 0 {
			sort.Strings(missed)
			if v.auditMissed == nil {
				v.auditMissed = map[int]map[string]KeyInfo{}
			}
			if v.auditMissed[li.ordinal] == nil {
				v.auditMissed[li.ordinal] = map[string]KeyInfo{}
			}
			for _, k := range missed {
				ki := KeyInfo{Key: k, Dims: v.reg.dims[k], CellT: v.reg.cellT[k]}
				if strings.HasPrefix(k, "GH!") {
					ki.Ghost = v.reg.sort[k]
				}
				if mt, ok := v.mapTypes[k]; ok {
					ki.Map = mt
				}
				v.auditMissed[li.ordinal][k] = ki
			}
			if fr.transparent {
				v.errs = append(v.errs, fmt.Sprintf("loop %d: state written in the body but not havocked at the head: %s", li.ordinal, strings.Join(missed, " ")))
			} else {
				v.errs = append(v.errs, fmt.Sprintf("loop %d of inlined %s: state written in the body but not havocked at the head: %s", li.ordinal, fr.fn.Name(), strings.Join(missed, " ")))
			}
		}
	}
	st2 := st.clone()
	st2.reach = cond
	for k, inv := range li.spec.Invariants {
		env := fr.specEnv(st2, li)
		g, extra := env.boolTerm(inv.Expr)
		o := v.addObl(st2, "inv.keep", fmt.Sprintf("loop%d.%s", li.ordinal, clLabel(inv, k)), g, inv.Text, pickProps(inv, fr.propsOf()), h.Instrs[0].Pos())
		o.Extra = extra
		o.Group = inv.Group
	}
	for phi, val := range saved {
		fr.vals[phi] = val
	}
}

// ---------------------------------------------------------------------------------------

func (fr *Frame) execBlock(b *ssa.BasicBlock, st *State) {
	v := fr.v
	fr.curBlock = b
	for _, in := range b.Instrs {
		if _, ok := in.(*ssa.Phi); ok {
			continue
		}
		switch x := in.(type) {
		case *ssa.If:
			c := fr.term(st, x.Cond)
			fr.outSt[b] = st
			fr.setEdge(b, b.Succs[0], st, and(st.reach, c))
			fr.setEdge(b, b.Succs[1], st, and(st.reach, not(c)))
			return
		case *ssa.Jump:
			fr.outSt[b] = st
			fr.setEdge(b, b.Succs[0], st, st.reach)
			return
		case *ssa.Return:
			var res []Val
			for _, r := range x.Results {
				val := fr.val(r)
				if val.Loc != nil {
					val = Val{T: v.materialize(st, val, deref(r.Type()), "returned pointer")}
				}
				res = append(res, val)
			}
			fr.exits = append(fr.exits, exitInfo{st, res})
			fr.afterLoopAsserts(b, nil, st, st.reach) // a return leaves the region of every enclosing loop header
			if fr.top {
				v.checkEnsures(fr, st, res, x.Pos(), b)
			}
			return
		case *ssa.Panic:
			if fr.safety("panic") {
				v.addObl(st, "safety", "panic", "false", "explicit panic is unreachable", nil, x.Pos())
			}
			return
		default:
			fr.execInstr(st, in)
		}
	}
}

func (fr *Frame) setEdge(from, to *ssa.BasicBlock, st *State, cond string) {
	v := fr.v
	name := v.smt.define(fmt.Sprintf("%sedge.b%d.b%d", fr.prefix, from.Index, to.Index), "Bool", cond)
	fr.afterLoopAsserts(from, to, st, name)
	if to.Dominates(from) {
		fr.backEdge(from, to, st, name)
		return
	}
	fr.edges[[2]int{from.Index, to.Index}] = name
}

func (fr *Frame) safety(kind string) bool {
	fc := fr.v.fc
	return fc != nil && (fc.Safety[kind] || fc.Safety["all"])
}

func (fr *Frame) safetyObl(st *State, kind, cond, text string, pos token.Pos) {
	v := fr.v
	if fr.safety(kind) {
		v.siteCount[kind]++
		var props []string
		if v.fc != nil {
			props = v.fc.SafetyProps
		}
		v.addObl(st, "safety", fmt.Sprintf("%s#%d", kind, v.siteCount[kind]), cond, text, props, pos)
	}
	// execution past a failed check is not modelled
	v.smt.assert(implies(st.reach, cond))
}

func (fr *Frame) execInstr(st *State, in ssa.Instruction) {
	v := fr.v
	switch x := in.(type) {
	case *ssa.DebugRef:
	case *ssa.Alloc:
		t := deref(x.Type())
		hint := x.Comment
		if hint == "" {
			hint = x.Name()
		}
		r := v.newRef(st, hint)
		fr.vals[x] = Val{T: r}
		if tn, ok := types.Unalias(t).(*types.Named); ok && tn.Obj().Pkg() != nil && tn.Obj().Pkg().Path() == "bytes" && tn.Obj().Name() == "Buffer" {
			// a fresh bytes.Buffer is an empty stream
			_, sn, sp := v.streamKeys()
			v.setHeap(st, sn, sto(v.heap(st, sn), r, "0"))
			v.setHeap(st, sp, sto(v.heap(st, sp), r, "0"))
		}
		// zero-initialise
		if a, ok := t.Underlying().(*types.Array); ok && !isOpaqueNamed(t) {
			k := v.elemKey(a.Elem())
			row := fmt.Sprintf("((as const (Array Int %s)) %s)", v.smt.sortOf(a.Elem()), v.smt.zeroOf(a.Elem()))
			v.setHeap(st, k, sto(v.heap(st, k), r, row))
		} else {
			v.storePtr(st, Val{T: r}, t, v.smt.zeroOf(t))
		}
	case *ssa.FieldAddr:
		base := fr.val(x.X)
		bt := deref(x.X.Type())
		_, sT := namedStruct(bt)
		if sT == nil {
			v.unsupported("FieldAddr on %s", bt)
		}
		ft := sT.Field(x.Field).Type()
		if base.Loc != nil {
			l := *base.Loc
			l.path = append(append([]pathElem(nil), l.path...), pathElem{dt: v.smt.sortOf(bt), st: sT, field: x.Field})
			l.T = ft
			fr.vals[x] = Val{Loc: &l}
			return
		}
		fr.safetyObl(st, "nil", "(not (= "+base.T+" 0))", "nil dereference: "+x.String(), x.Pos())
		if isRefStruct(bt) {
			fr.vals[x] = Val{Loc: &Loc{key: v.fieldKey(bt, x.Field), idx: []string{base.T}, cellT: ft, T: ft}}
			return
		}
		// pointer to an opaque (external) struct: the field is an uninterpreted component of the boxed value
		v.smt.note("field of external struct " + bt.String() + " read/written through uninterpreted getter/setter")
		fr.vals[x] = Val{Loc: &Loc{key: v.boxKey(bt), idx: []string{base.T}, cellT: bt, T: ft,
			path: []pathElem{{dt: v.smt.sortOf(bt), st: sT, field: x.Field, opq: true}}}}
	case *ssa.IndexAddr:
		idx := fr.term(st, x.Index)
		switch u := x.X.Type().Underlying().(type) {
		case *types.Slice:
			s := fr.term(st, x.X)
			fr.safetyObl(st, "index", and("(<= 0 "+idx+")", "(< "+idx+" (s.len "+s+"))"), "index in range: "+x.String(), x.Pos())
			fr.vals[x] = Val{Loc: &Loc{key: v.elemKey(u.Elem()), idx: []string{"(s.arr " + s + ")", "(ix (s.off " + s + ") " + idx + ")"}, cellT: u.Elem(), T: u.Elem()}}
		case *types.Pointer:
			arr, ok := u.Elem().Underlying().(*types.Array)
			if !ok {
				v.unsupported("IndexAddr on %s", x.X.Type())
			}
			fr.safetyObl(st, "index", and("(<= 0 "+idx+")", fmt.Sprintf("(< %s %d)", idx, arr.Len())), "index in range: "+x.String(), x.Pos())
			base := fr.val(x.X)
			if isOpaqueNamed(u.Elem()) {
				v.unsupported("indexing opaque array type %s", u.Elem())
			}
			if base.Loc != nil {
				l := *base.Loc
				l.path = append(append([]pathElem(nil), l.path...), pathElem{arrIdx: idx, arrT: arr})
				l.T = arr.Elem()
				fr.vals[x] = Val{Loc: &l}
				return
			}
			fr.vals[x] = Val{Loc: &Loc{key: v.elemKey(arr.Elem()), idx: []string{base.T, "(ix 0 " + idx + ")"}, cellT: arr.Elem(), T: arr.Elem()}}
		default:
			v.unsupported("IndexAddr on %s", x.X.Type())
		}
	case *ssa.UnOp:
		fr.execUnOp(st, x)
	case *ssa.BinOp:
		a, b := fr.term(st, x.X), fr.term(st, x.Y)
		if x.Op == token.QUO || x.Op == token.REM {
			if _, isInt := x.X.Type().Underlying().(*types.Basic); isInt {
				fr.safetyObl(st, "div", "(not (= "+b+" 0))", "division by zero: "+x.String(), x.Pos())
			}
		}
		fr.defVal(x, v.binop(x.Op, a, b, x.X.Type(), x.Type()))
	case *ssa.Store:
		addr := fr.val(x.Addr)
		val := fr.term(st, x.Val)
		if addr.Loc == nil {
			fr.safetyObl(st, "nil", "(not (= "+addr.T+" 0))", "nil dereference: "+x.String(), x.Pos())
		}
		fr.checkGuarded(st, addr, x.Pos(), "write")
		for base := x.Addr; base != nil; {
			if v.detached[base] {
				v.unsupported("store through a converted array pointer")
			}
			switch b := base.(type) {
			case *ssa.FieldAddr:
				base = b.X
			case *ssa.IndexAddr:
				base = b.X
			default:
				base = nil
			}
		}
		fr.checkFrozen(st, x)
		sargs := []Val{{T: val}}
		if _, isField := x.Addr.(*ssa.FieldAddr); isField && v.fc != nil && len(v.fc.Asserts) > 0 && fr.transparent {
			// the value being replaced (for "assert … at store F" clauses that compare old and new)
			if addr.Loc != nil {
				sargs = append(sargs, Val{T: v.loadLoc(st, addr.Loc)})
			} else {
				sargs = append(sargs, Val{T: v.loadPtr(st, addr, deref(x.Addr.Type()))})
			}
		}
		v.storePtr(st, addr, deref(x.Addr.Type()), val)
		fr.siteAsserts(st, "store", x.Addr, sargs, x.Pos())
	case *ssa.Field:
		sv := fr.term(st, x.X)
		_, sT := namedStruct(x.X.Type())
		fr.defVal(x, fmt.Sprintf("(%s!%s %s)", v.smt.sortOf(x.X.Type()), sT.Field(x.Field).Name(), sv))
	case *ssa.Index:
		fr.defVal(x, sel(fr.term(st, x.X), fr.term(st, x.Index)))
	case *ssa.Extract:
		tv := fr.val(x.Tuple)
		if x.Index >= len(tv.Tuple) {
			v.unsupported("extract %d of %s", x.Index, x.Tuple)
		}
		fr.vals[x] = tv.Tuple[x.Index]
	case *ssa.Slice:
		fr.execSlice(st, x)
	case *ssa.MakeSlice:
		n := fr.term(st, x.Len)
		c := fr.term(st, x.Cap)
		el := x.Type().Underlying().(*types.Slice).Elem()
		fr.safetyObl(st, "alloc", and("(<= 0 "+n+")", "(<= "+n+" "+c+")", "(< "+c+" 140737488355328)"), "make length within [0, 2^47): "+x.String(), x.Pos())
		fr.allocBound(st, n, x)
		r := v.newRef(st, "mk")
		k := v.elemKey(el)
		row := fmt.Sprintf("((as const (Array Int %s)) %s)", v.smt.sortOf(el), v.smt.zeroOf(el))
		v.setHeap(st, k, sto(v.heap(st, k), r, row))
		fr.defVal(x, fmt.Sprintf("(mk-slice %s 0 %s %s)", r, n, c))
	case *ssa.MakeMap:
		m := x.Type().Underlying().(*types.Map)
		dk, vk := v.mapKeys(m)
		r := v.newRef(st, "map")
		ks := v.smt.sortOf(m.Key())
		v.setHeap(st, dk, sto(v.heap(st, dk), r, fmt.Sprintf("((as const (Array %s Bool)) false)", ks)))
		v.setHeap(st, vk, sto(v.heap(st, vk), r, fmt.Sprintf("((as const (Array %s %s)) %s)", ks, v.smt.sortOf(m.Elem()), v.smt.zeroOf(m.Elem()))))
		fr.vals[x] = Val{T: r}
	case *ssa.MakeChan:
		r := v.newRef(st, "chan")
		fr.vals[x] = Val{T: r}
		nk := v.ghostKey("nrecv", "(Array Int Int)")
		v.setHeap(st, nk, sto(v.heap(st, nk), r, "0")) // nothing received from a new channel yet
	case *ssa.MakeClosure:
		fr.vals[x] = Val{T: v.newRef(st, "closure")}
		v.smt.note("closure value " + x.Fn.Name() + " treated as opaque")
	case *ssa.MakeInterface:
		fr.defVal(x, v.makeIface(st, fr.term(st, x.X), x.X.Type()))
	case *ssa.SliceToArrayPointer:
		// (*[N]T)(s): panics when len(s) < N. The result is modelled as a pointer to a detached
		// copy with unconstrained contents (reads say nothing; a store through it is out of subset).
		sl := fr.term(st, x.X)
		at, _ := deref(x.Type()).Underlying().(*types.Array)
		if at == nil {
			v.unsupported("slice to array pointer %s", x.Type())
		}
		fr.safetyObl(st, "index", fmt.Sprintf("(>= (s.len %s) %d)", sl, at.Len()), "slice long enough for the array conversion: "+x.String(), x.Pos())
		r := v.newRef(st, "arrconv")
		fr.vals[x] = Val{T: r}
		v.detached[x] = true
		v.smt.note("slice-to-array-pointer conversion: contents of the converted array unconstrained")
	case *ssa.ChangeType:
		fr.vals[x] = Val{T: fr.term(st, x.X)}
	case *ssa.ChangeInterface:
		fr.vals[x] = Val{T: fr.term(st, x.X)}
	case *ssa.Convert:
		fr.defVal(x, v.convert(st, fr.term(st, x.X), x.X.Type(), x.Type()))
	case *ssa.TypeAssert:
		fr.execTypeAssert(st, x)
	case *ssa.Lookup:
		fr.execLookup(st, x)
	case *ssa.MapUpdate:
		m := x.Map.Type().Underlying().(*types.Map)
		dk, vk := v.mapKeys(m)
		mr := fr.term(st, x.Map)
		fr.safetyObl(st, "nil", "(not (= "+mr+" 0))", "assignment to entry in nil map", x.Pos())
		fr.checkGuardedMap(st, x.Map, x.Pos())
		k := fr.term(st, x.Key)
		val := fr.term(st, x.Value)
		v.setHeap(st, dk, sto(v.heap(st, dk), mr, sto(sel(v.heap(st, dk), mr), k, "true")))
		v.setHeap(st, vk, sto(v.heap(st, vk), mr, sto(sel(v.heap(st, vk), mr), k, val)))
	case *ssa.Range:
		fr.execRange(st, x)
	case *ssa.Next:
		fr.execNext(st, x)
	case *ssa.Call:
		fr.execCall(st, x.Common(), x, x.Pos())
	case *ssa.Defer:
		var args []Val
		for _, a := range x.Call.Args {
			args = append(args, fr.val(a))
		}
		st.defers = append(st.defers, deferred{call: x, args: args})
	case *ssa.RunDefers:
		for i := len(st.defers) - 1; i >= 0; i-- {
			d := st.defers[i].call.(*ssa.Defer)
			fr.execCall(st, &d.Call, nil, d.Pos())
		}
		st.defers = nil
	case *ssa.Go:
		v.smt.note("go statement in " + fr.fn.Name() + ": spawned goroutine not modelled")
		if fr.transparent {
			v.goStmts++
		}
	case *ssa.Send:
		fr.execSend(st, x)
	case *ssa.Select:
		fr.execSelect(st, x)
	default:
		v.unsupported("instruction %T (%s) in %s", in, in, fr.fn)
	}
}

func (fr *Frame) allocBound(st *State, n string, x *ssa.MakeSlice) {
	if !fr.safety("allocbound") {
		return
	}
	v := fr.v
	el := x.Type().Underlying().(*types.Slice).Elem()
	_ = el
	// the length must be bounded by the ghost "remaining input" budget of this decoder, or a constant
	budget := v.heap(st, v.ghostKey("inputBudget", "Int"))
	v.siteCount["allocbound"]++
	v.addObl(st, "safety", fmt.Sprintf("allocbound#%d", v.siteCount["allocbound"]),
		"(<= "+n+" (+ "+budget+" 65536))", "allocation bounded by remaining input (+64Ki): "+x.String(), nil, x.Pos())
}

func (fr *Frame) execUnOp(st *State, x *ssa.UnOp) {
	v := fr.v
	switch x.Op {
	case token.MUL:
		p := fr.val(x.X)
		if p.Loc == nil {
			fr.safetyObl(st, "nil", "(not (= "+p.T+" 0))", "nil dereference: "+x.String(), x.Pos())
		}
		fr.checkGuarded(st, p, x.Pos(), "read")
		t := v.loadPtr(st, p, x.Type())
		fr.defVal(x, t)
		v.smt.assert(v.closedFact(fr.vals[x].T, x.Type(), v.alloc(st), 0))
	case token.NOT:
		fr.defVal(x, not(fr.term(st, x.X)))
	case token.SUB:
		fr.defVal(x, v.wrap("(- "+fr.term(st, x.X)+")", x.Type()))
	case token.ARROW:
		// channel receive: unconstrained value
		if tt, ok := x.Type().(*types.Tuple); ok {
			a := v.smt.fresh(fr.name(x)+".v", v.smt.sortOf(tt.At(0).Type()))
			b := v.smt.fresh(fr.name(x)+".ok", "Bool")
			fr.vals[x] = Val{Tuple: []Val{{T: a}, {T: b}}}
		} else {
			n := fr.freshVal(x)
			v.smt.assert(v.closedFact(n, x.Type(), v.alloc(st), 0))
		}
		fr.countRecv(st, fr.term(st, x.X), "true")
		if _, isTuple := x.Type().(*types.Tuple); !isTuple {
			fr.chanMsgInv(st, x.Type(), fr.vals[x].T, false, x.Pos())
		}
		v.smt.note("channel receive yields an unconstrained value")
	case token.XOR:
		f := v.smt.declareFun("bitnot", []string{"Int"}, "Int")
		fr.defVal(x, app(f, fr.term(st, x.X)))
	default:
		v.unsupported("unary %s", x.Op)
	}
}

func (fr *Frame) execSlice(st *State, x *ssa.Slice) {
	v := fr.v
	var lo, hi, mx string
	if x.Low != nil {
		lo = fr.term(st, x.Low)
	} else {
		lo = "0"
	}
	switch u := x.X.Type().Underlying().(type) {
	case *types.Slice:
		s := fr.term(st, x.X)
		if x.High != nil {
			hi = fr.term(st, x.High)
		} else {
			hi = "(s.len " + s + ")"
		}
		capS := "(s.cap " + s + ")"
		if x.Max != nil {
			mx = fr.term(st, x.Max)
			fr.safetyObl(st, "index", and("(<= 0 "+lo+")", "(<= "+lo+" "+hi+")", "(<= "+hi+" "+mx+")", "(<= "+mx+" "+capS+")"), "slice bounds: "+x.String(), x.Pos())
		} else {
			mx = capS
			fr.safetyObl(st, "index", and("(<= 0 "+lo+")", "(<= "+lo+" "+hi+")", "(<= "+hi+" "+capS+")"), "slice bounds: "+x.String(), x.Pos())
		}
		// Go keeps the nil-ness of s[0:0] on a nil slice: arr stays 0
		fr.defVal(x, fmt.Sprintf("(mk-slice (s.arr %s) (+ (s.off %s) %s) (- %s %s) (- %s %s))", s, s, lo, hi, lo, mx, lo))
		if lo != "0" {
			// bridge: element d of the sub-slice is element lo+d of the parent (lets facts about s[k] reach s[lo:][d])
			r := fr.vals[x].T
			v.smt.assert(fmt.Sprintf("(forall ((d Int)) (! (= (ix (s.off %s) d) (ix (s.off %s) (+ %s d))) :pattern ((ix (s.off %s) d))))", r, s, lo, r))
			v.smt.assert(fmt.Sprintf("(forall ((c Int)) (! (=> (<= %s c) (= (ix (s.off %s) c) (ix (s.off %s) (- c %s)))) :pattern ((ix (s.off %s) c))))", lo, s, r, lo, s))
		}
	case *types.Pointer:
		arr, ok := u.Elem().Underlying().(*types.Array)
		if !ok {
			v.unsupported("slice of %s", x.X.Type())
		}
		n := fmt.Sprintf("%d", arr.Len())
		if x.High != nil {
			hi = fr.term(st, x.High)
		} else {
			hi = n
		}
		fr.safetyObl(st, "index", and("(<= 0 "+lo+")", "(<= "+lo+" "+hi+")", "(<= "+hi+" "+n+")"), "slice bounds: "+x.String(), x.Pos())
		base := fr.val(x.X)
		if isOpaqueNamed(u.Elem()) || base.Loc != nil {
			// view of an opaque array value (Hash32 etc.) or an array inside a cell: snapshot bytes
			var valT string
			if base.Loc != nil {
				valT = v.loadLoc(st, base.Loc)
			} else {
				valT = v.loadPtr(st, base, u.Elem())
			}
			r := v.newRef(st, "arrview")
			k := v.elemKey(arr.Elem())
			var row string
			if isOpaqueNamed(u.Elem()) {
				f := v.smt.declareFun("bytes!"+shortType(u.Elem()), []string{v.smt.sortOf(u.Elem())}, "(Array Int "+v.smt.sortOf(arr.Elem())+")")
				row = app(f, valT)
			} else {
				row = valT
			}
			v.setHeap(st, k, sto(v.heap(st, k), r, row))
			if isOpaqueNamed(u.Elem()) && lo == "0" && x.High == nil {
				// the whole array as bytes: its blob is an injective function of the array value
				bo, _ := v.opaqueBlobFuns(u.Elem(), arr.Len())
				v.setHeap(st, v.blobKey(), sto(v.heap(st, v.blobKey()), r, app(bo, valT)))
			}
			v.smt.note("slice of array value is a snapshot copy (only the exact-read model of bytes.Reader writes back through it)")
			fr.defVal(x, fmt.Sprintf("(mk-slice %s %s (- %s %s) (- %s %s))", r, lo, hi, lo, n, lo))
			return
		}
		fr.defVal(x, fmt.Sprintf("(mk-slice %s %s (- %s %s) (- %s %s))", base.T, lo, hi, lo, n, lo))
	case *types.Basic: // string
		f := v.smt.declareFun("str.slice", []string{"Str", "Int", "Int"}, "Str")
		s := fr.term(st, x.X)
		if x.High != nil {
			hi = fr.term(st, x.High)
		} else {
			hi = app(v.smt.declareFun("str.len", []string{"Str"}, "Int"), s)
		}
		fr.defVal(x, app(f, s, lo, hi))
	default:
		v.unsupported("slice of %s", x.X.Type())
	}
}

func (v *FnVerifier) typeTag(t types.Type) int {
	k := normBasic(types.TypeString(t, nil))
	if n, ok := v.typeTags[k]; ok {
		return n
	}
	n := len(v.typeTags) + 1
	v.typeTags[k] = n
	return n
}

func (v *FnVerifier) makeIface(st *State, val string, t types.Type) string {
	if _, isIface := t.Underlying().(*types.Interface); isIface {
		return val
	}
	tag := v.typeTag(t)
	if _, ok := sortIsInt(t); ok {
		return fmt.Sprintf("(mk-iface %d %s)", tag, val)
	}
	if b, ok := t.Underlying().(*types.Basic); ok && b.Info()&types.IsInteger != 0 {
		// small scalars: payload is the value itself (not a reference); negative allowed
		return fmt.Sprintf("(mk-iface %d %s)", tag, val)
	}
	// box the value
	r := v.newRef(st, "ibox")
	v.storePtr(st, Val{T: r}, t, val)
	return fmt.Sprintf("(mk-iface %d %s)", tag, r)
}

func (fr *Frame) execTypeAssert(st *State, x *ssa.TypeAssert) {
	v := fr.v
	iv := fr.term(st, x.X)
	var okT, valT string
	at := x.AssertedType
	if _, isIface := at.Underlying().(*types.Interface); isIface {
		f := v.smt.declareFun("implements!"+shortType(at), []string{"Int"}, "Bool")
		okT = and("(not (= (i.tag "+iv+") 0))", app(f, "(i.tag "+iv+")"))
		valT = iv
	} else {
		tag := v.typeTag(at)
		okT = fmt.Sprintf("(= (i.tag %s) %d)", iv, tag)
		if _, ok := sortIsInt(at); ok {
			valT = "(i.val " + iv + ")"
		} else if b, ok := at.Underlying().(*types.Basic); ok && b.Info()&types.IsInteger != 0 {
			valT = "(i.val " + iv + ")"
		} else {
			valT = v.loadPtr(st, Val{T: "(i.val " + iv + ")"}, at)
		}
	}
	if x.CommaOk {
		okN := v.smt.define(fr.name(x)+".ok", "Bool", okT)
		valN := v.smt.define(fr.name(x)+".v", v.smt.sortOf(at), ite(okN, valT, v.smt.zeroOf(at)))
		fr.vals[x] = Val{Tuple: []Val{{T: valN}, {T: okN}}}
		return
	}
	fr.safetyObl(st, "nil", okT, "type assertion holds: "+x.String(), x.Pos())
	fr.defVal(x, valT)
}

func (fr *Frame) execLookup(st *State, x *ssa.Lookup) {
	v := fr.v
	switch u := x.X.Type().Underlying().(type) {
	case *types.Map:
		dk, vk := v.mapKeys(u)
		m := fr.term(st, x.X)
		k := fr.term(st, x.Index)
		fr.checkGuardedMap(st, x.X, x.Pos())
		has := and("(not (= "+m+" 0))", sel(sel(v.heap(st, dk), m), k))
		val := ite(has, sel(sel(v.heap(st, vk), m), k), v.smt.zeroOf(u.Elem()))
		if x.CommaOk {
			okN := v.smt.define(fr.name(x)+".ok", "Bool", has)
			valN := v.smt.define(fr.name(x)+".v", v.smt.sortOf(u.Elem()), val)
			v.smt.assert(v.closedFact(valN, u.Elem(), v.alloc(st), 0))
			fr.vals[x] = Val{Tuple: []Val{{T: valN}, {T: okN}}}
		} else {
			fr.defVal(x, val)
			v.smt.assert(v.closedFact(fr.vals[x].T, u.Elem(), v.alloc(st), 0))
		}
	default:
		// string index
		f := v.smt.declareFun("str.at", []string{"Str", "Int"}, "Int")
		fr.defVal(x, app(f, fr.term(st, x.X), fr.term(st, x.Index)))
	}
}

// ---- arithmetic ----

func (v *FnVerifier) wrap(t string, ty types.Type) string {
	b, ok := ty.Underlying().(*types.Basic)
	if !ok {
		return t
	}
	bits, signed, ok := intBits(b)
	if !ok {
		return t
	}
	if signed {
		v.smt.note("int_arith_mathematical: signed integer arithmetic is not wrapped")
		return t
	}
	return "(mod " + t + " " + pow2(bits) + ")"
}

func (v *FnVerifier) binop(op token.Token, a, b string, operandT, resT types.Type) string {
	isInt := false
	isStr := false
	if bt, ok := operandT.Underlying().(*types.Basic); ok {
		isInt = bt.Info()&types.IsInteger != 0
		isStr = bt.Info()&types.IsString != 0
	}
	switch op {
	case token.ADD:
		if isStr {
			return app(v.smt.declareFun("str.concat", []string{"Str", "Str"}, "Str"), a, b)
		}
		return v.wrap("(+ "+a+" "+b+")", resT)
	case token.SUB:
		return v.wrap("(- "+a+" "+b+")", resT)
	case token.MUL:
		return v.wrap("(* "+a+" "+b+")", resT)
	case token.QUO:
		if isInt {
			return goDiv(a, b)
		}
		return "(/ " + a + " " + b + ")"
	case token.REM:
		return goRem(a, b)
	case token.EQL:
		return eq(a, b)
	case token.NEQ:
		return not(eq(a, b))
	case token.LSS:
		if isStr {
			return app(v.smt.declareFun("str.lt", []string{"Str", "Str"}, "Bool"), a, b)
		}
		return "(< " + a + " " + b + ")"
	case token.LEQ:
		return "(<= " + a + " " + b + ")"
	case token.GTR:
		return "(> " + a + " " + b + ")"
	case token.GEQ:
		return "(>= " + a + " " + b + ")"
	case token.SHL:
		if n, ok := smallConst(b); ok {
			return v.wrap("(* "+a+" "+pow2(n)+")", resT)
		}
	case token.SHR:
		if n, ok := smallConst(b); ok {
			if bt, ok2 := operandT.Underlying().(*types.Basic); ok2 {
				if _, signed, _ := intBits(bt); !signed {
					return "(div " + a + " " + pow2(n) + ")"
				}
			}
			return "(div " + a + " " + pow2(n) + ")" // arithmetic shift = floor division
		}
	case token.AND:
		if a == b {
			return a
		}
		// x & (2^k-1)
		if n, ok := maskConst(b); ok {
			return "(mod " + a + " " + pow2(n) + ")"
		}
	}
	var name string
	switch op {
	case token.AND:
		name = "bitand"
	case token.OR:
		name = "bitor"
	case token.XOR:
		name = "bitxor"
	case token.SHL:
		name = "shl"
	case token.SHR:
		name = "shr"
	case token.AND_NOT:
		name = "bitandnot"
	default:
		v.unsupported("binary op %s", op)
	}
	v.smt.note("bit operation " + name + " is uninterpreted")
	return app(v.smt.declareFun(name, []string{"Int", "Int"}, "Int"), a, b)
}

func smallConst(t string) (int, bool) {
	var n int
	if _, err := fmt.Sscanf(t, "%d", &n); err == nil && fmt.Sprintf("%d", n) == t && n >= 0 && n <= 63 {
		return n, true
	}
	return 0, false
}

func maskConst(t string) (int, bool) {
	var n uint64
	if _, err := fmt.Sscanf(t, "%d", &n); err == nil && fmt.Sprintf("%d", n) == t {
		for k := 1; k < 64; k++ {
			if n == (uint64(1)<<uint(k))-1 {
				return k, true
			}
		}
	}
	return 0, false
}

func (v *FnVerifier) convert(st *State, x string, from, to types.Type) string {
	fb, fok := from.Underlying().(*types.Basic)
	tb, tok := to.Underlying().(*types.Basic)
	if fok && tok && fb.Info()&types.IsInteger != 0 && tb.Info()&types.IsInteger != 0 {
		fbits, fsigned, _ := intBits(fb)
		tbits, tsigned, _ := intBits(tb)
		if fsigned == tsigned && tbits >= fbits {
			return x
		}
		if !fsigned && tsigned && tbits > fbits {
			return x
		}
		if !tsigned {
			return "(mod " + x + " " + pow2(tbits) + ")"
		}
		// to signed, narrowing or from unsigned of same width
		h := pow2(tbits - 1)
		return "(- (mod (+ " + x + " " + h + ") " + pow2(tbits) + ") " + h + ")"
	}
	fs, ts := v.smt.sortOf(from), v.smt.sortOf(to)
	if fs == ts {
		return x
	}
	if fs == "Str" && ts == "Slice" {
		// []byte(s): fresh array whose blob is the string's encoding
		if sl, ok := to.Underlying().(*types.Slice); ok {
			if b, ok := sl.Elem().Underlying().(*types.Basic); ok && b.Kind() == types.Uint8 {
				return v.strToBytes(st, x)
			}
		}
	}
	if fs == "Slice" && ts == "Str" {
		if sl, ok := from.Underlying().(*types.Slice); ok {
			if b, ok := sl.Elem().Underlying().(*types.Basic); ok && b.Kind() == types.Uint8 {
				return v.bytesToStr(st, x)
			}
		}
	}
	name := "conv!" + sanitize(fs) + "!" + sanitize(ts)
	f := v.smt.declareFun(name, []string{fs}, ts)
	if ts == "Slice" {
		// []byte(string): fresh slice whose content is a function of the string
		v.smt.note("string<->[]byte conversions are uninterpreted")
	}
	return app(f, x)
}

func (v *FnVerifier) strCodecFuns() (enc, dec, blen, slen string) {
	enc = v.smt.declareFun("uf!strEnc", []string{"Str"}, "Int")
	dec = v.smt.declareFun("uf!strDec", []string{"Int"}, "Str")
	blen = v.smt.declareFun("uf!blobLen", []string{"Int"}, "Int")
	slen = v.smt.declareFun("str.len", []string{"Str"}, "Int")
	ax := fmt.Sprintf("(forall ((s Str)) (! (and (= (%s (%s s)) s) (= (%s (%s s)) (%s s)) (>= (%s s) 0)) :pattern ((%s s))))", dec, enc, blen, enc, slen, slen, enc)
	if !v.smt.ufs[ax] {
		v.smt.ufs[ax] = true
		v.smt.axiom(ax)
		v.smt.note("string <-> []byte conversions are an exact inverse pair (content by blob identity)")
	}
	return
}

func (v *FnVerifier) strToBytes(st *State, s string) string {
	enc, _, _, slen := v.strCodecFuns()
	r := v.newRef(st, "strbytes")
	bk := v.blobKey()
	v.setHeap(st, bk, sto(v.heap(st, bk), r, app(enc, s)))
	n := app(slen, s)
	return fmt.Sprintf("(mk-slice %s 0 %s %s)", r, n, n)
}

func (v *FnVerifier) bytesToStr(st *State, b string) string {
	_, dec, blen, slen := v.strCodecFuns()
	blob := sel(v.heap(st, v.blobKey()), "(s.arr "+b+")")
	str := v.smt.define("bytes2str", "Str", app(dec, blob))
	// a string made from a slice has the slice's length (when the slice spans its blob)
	v.smt.assert(implies(eq(app(blen, blob), "(s.len "+b+")"), eq(app(slen, str), "(s.len "+b+")")))
	return str
}

// opaqueBlobFuns: blobOf!T / fromBlob!T for a named array type (Hash32, …): the byte string of a
// value and back.
func (v *FnVerifier) opaqueBlobFuns(t types.Type, n int64) (toBlob, fromBlob string) {
	s := v.smt.sortOf(t)
	toBlob = v.smt.declareFun("blobOf!"+shortType(t), []string{s}, "Int")
	fromBlob = v.smt.declareFun("fromBlob!"+shortType(t), []string{"Int"}, s)
	blen := v.smt.declareFun("uf!blobLen", []string{"Int"}, "Int")
	ax := fmt.Sprintf("(forall ((x %s)) (! (and (= (%s (%s x)) x) (= (%s (%s x)) %d)) :pattern ((%s x))))", s, fromBlob, toBlob, blen, toBlob, n, toBlob)
	if !v.smt.ufs[ax] {
		v.smt.ufs[ax] = true
		v.smt.axiom(ax)
	}
	return
}

// siteCover: vacuity guard for a site assertion — the site must be reachable under the
// assumptions in force there (a contradictory invariant or precondition would discharge anything).
func (v *FnVerifier) siteCover(st *State, o *Obligation) {
	c := v.addObl(st, "cover", "site."+strings.TrimPrefix(o.Name, v.unitName()+".assert."), "false", "the assertion site is reachable", o.Props, token.NoPos)
	c.Cover = true
	c.Group = o.Group
	c.Pos = o.Pos
}

// anteCovers: an assertion of the form A ==> B (or a conjunction of such) says nothing where A
// cannot hold: for each antecedent a cover obligation checks that the site is reachable WITH A.
func (v *FnVerifier) anteCovers(st *State, env *Env, o *Obligation, expr *Node, guard string) {
	var antes []*Node
	var walk func(n *Node)
	walk = func(n *Node) {
		for n != nil && n.Kind == NParen && len(n.Args) == 1 {
			n = n.Args[0]
		}
		if n == nil || n.Kind != NBinary {
			return
		}
		switch n.Op {
		case "&&":
			walk(n.Args[0])
			walk(n.Args[1])
		case "==>":
			antes = append(antes, n.Args[0])
		}
	}
	walk(expr)
	for k, a := range antes {
		func() {
			defer func() {
				if r := recover(); r != nil {
					if _, isSpec := r.(specErr); !isSpec {
						panic(r)
					}
				}
			}()
			g, extra := env.boolTerm(a)
			if guard != "" {
				g = and(guard, g)
			}
			c := v.addObl(st, "cover", fmt.Sprintf("ante%d.%s", k, strings.TrimPrefix(strings.TrimPrefix(o.Name, v.unitName()+".assert."), v.unitName()+".ensures.")), not(g), "the antecedent of the clause can hold here", o.Props, token.NoPos)
			c.Cover = true
			c.Extra = extra
			c.Group = o.Group
			c.Pos = o.Pos
		}()
	}
}
