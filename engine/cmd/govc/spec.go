package main

// Translation of contract expressions (Node) to SMT terms in a symbolic state.

import (
	"regexp"
	"fmt"
	"go/ast"
	"go/constant"
	"go/types"
	"strconv"
	"strings"

	"golang.org/x/tools/go/ssa"
)

type specVal struct {
	t     string
	typ   types.Type
	st    *State // state in which slice contents are read (old() propagates)
	isNil bool
}

type Env struct {
	v        *FnVerifier
	fr       *Frame
	st       *State
	old      *State
	li       *loopInfo
	bound    map[string]specVal
	lets     map[string]*Node
	results  []Val
	resT     []types.Type
	resName  []string
	extra    *[]string
	pkg      *types.Package
	args     []specVal // arg0.. for site assertions
	depth    int
	retBlock *ssa.BasicBlock // for ensures: loop names of dominating loop headers are visible
	inOld    bool
	atSite   bool // site assertion inside a block: variables defined earlier in the same block are visible
	pats     *map[string][]string // quantified int variable (SMT name) -> index-term patterns found in the body
}

// tryEval evaluates n, reporting failure instead of panicking.
func (e *Env) tryEval(n *Node) (t string, ok bool) {
	defer func() {
		if r := recover(); r != nil {
			if _, isSpec := r.(specErr); isSpec {
				ok = false
				return
			}
			panic(r)
		}
	}()
	return e.eval(n).t, true
}

type specErr struct{ msg string }

func (e *Env) fail(f string, a ...interface{}) { panic(specErr{fmt.Sprintf(f, a...)}) }

func (fr *Frame) specEnv(st *State, li *loopInfo) *Env {
	v := fr.v
	old := v.entry
	if v.lockBase != nil {
		old = v.lockBase
	}
	if fr.entry != nil {
		old = fr.entry
	}
	var extra []string
	env := &Env{v: v, fr: fr, st: st, old: old, li: li, bound: map[string]specVal{}, lets: map[string]*Node{}, extra: &extra, pkg: fr.fn.Pkg.Pkg}
	lfc := fr.fc
	if fr.owner != nil && fr.owner != fr {
		// a helper executed as part of a function under contract: that function's contract speaks
		lfc = fr.owner.fc
		env.pkg = fr.owner.fn.Pkg.Pkg
	}
	if lfc != nil {
		for _, l := range lfc.Lets {
			env.lets[l.Name] = l.Body
		}
	}
	return env
}

func (e *Env) with(st *State) *Env {
	n := *e
	n.st = st
	return &n
}

func (e *Env) bind(name string, sv specVal) *Env {
	n := *e
	n.bound = map[string]specVal{}
	for k, v := range e.bound {
		n.bound[k] = v
	}
	n.bound[name] = sv
	return &n
}

var tInt = types.Typ[types.Int]
var tBool = types.Typ[types.Bool]

func (e *Env) boolTerm(n *Node) (string, []string) {
	defer func() {
		if r := recover(); r != nil {
			if se, ok := r.(specErr); ok && !strings.Contains(se.msg, " [in: ") {
				txt := n.String()
				if len(txt) > 160 {
					txt = txt[:160] + "…"
				}
				panic(specErr{se.msg + " [in: " + txt + "]"})
			}
			panic(r)
		}
	}()
	sv := e.eval(n)
	if e.v.smt.sortOf(sv.typ) != "Bool" {
		e.fail("expression %s is not boolean", n)
	}
	return sv.t, *e.extra
}

func isPkgIdent(e *Env, n *Node) *types.Package {
	if n.Kind != NIdent {
		return nil
	}
	if _, ok := e.bound[n.Name]; ok {
		return nil
	}
	if e.fr != nil {
		if _, ok := e.fr.params[n.Name]; ok {
			return nil
		}
	}
	if e.fr != nil && fnHasLocal(e.fr.fn, n.Name) {
		return nil // a local variable shadows the package name
	}
	if e.pkg == nil {
		return nil
	}
	// file-level import aliases take precedence (two packages may share a declared name)
	if path, ok := e.v.eng.importAlias(e.pkg.Path(), n.Name); ok {
		for _, imp := range e.pkg.Imports() {
			if imp.Path() == path {
				return imp
			}
		}
	}
	for _, imp := range e.pkg.Imports() {
		if imp.Name() == n.Name {
			return imp
		}
	}
	return nil
}

func (e *Env) resolveType(n *Node) types.Type {
	switch n.Kind {
	case NIdent:
		if o := types.Universe.Lookup(n.Name); o != nil {
			if tn, ok := o.(*types.TypeName); ok {
				return tn.Type()
			}
		}
		if e.pkg != nil {
			if o := e.pkg.Scope().Lookup(n.Name); o != nil {
				if tn, ok := o.(*types.TypeName); ok {
					return tn.Type()
				}
			}
		}
	case NSelect:
		if p := isPkgIdent(e, n.Args[0]); p != nil {
			if o := p.Scope().Lookup(n.Name); o != nil {
				if tn, ok := o.(*types.TypeName); ok {
					return tn.Type()
				}
			}
		}
	case NUnary:
		if n.Op == "*" {
			return types.NewPointer(e.resolveType(n.Args[0]))
		}
		if n.Op == "[]" {
			return types.NewSlice(e.resolveType(n.Args[0]))
		}
	case NParen:
		return e.resolveType(n.Args[0])
	}
	e.fail("cannot resolve type %s", n)
	return nil
}

func (e *Env) objVal(o types.Object) (specVal, bool) {
	switch x := o.(type) {
	case *types.Const:
		switch x.Val().Kind() {
		case constant.Int:
			s := x.Val().ExactString()
			if strings.HasPrefix(s, "-") {
				s = "(- " + s[1:] + ")"
			}
			return specVal{t: s, typ: x.Type()}, true
		case constant.Bool:
			return specVal{t: fmt.Sprintf("%v", constant.BoolVal(x.Val())), typ: tBool}, true
		case constant.String:
			return specVal{t: e.v.smt.strLit(constant.StringVal(x.Val())), typ: types.Typ[types.String]}, true
		}
	case *types.Var:
		if x.Pkg() != nil && x.Parent() == x.Pkg().Scope() {
			name := x.Pkg().Path() + "." + x.Name()
			k := e.v.globalKey(name, x.Type())
			return specVal{t: e.v.heap(e.st, k), typ: x.Type(), st: e.st}, true
		}
	}
	return specVal{}, false
}

func (e *Env) eval(n *Node) specVal {
	v := e.v
	switch n.Kind {
	case NParen:
		return e.eval(n.Args[0])
	case NInt:
		x, err := strconv.ParseInt(n.Name, 0, 64)
		if err != nil {
			u, err2 := strconv.ParseUint(n.Name, 0, 64)
			if err2 != nil {
				e.fail("bad integer %s", n.Name)
			}
			return specVal{t: fmt.Sprintf("%d", u), typ: tInt}
		}
		return specVal{t: num(x), typ: tInt}
	case NStr:
		return specVal{t: v.smt.strLit(n.Name), typ: types.Typ[types.String]}
	case NIdent:
		return e.evalIdent(n)
	case NUnary:
		switch n.Op {
		case "!":
			return specVal{t: not(e.eval(n.Args[0]).t), typ: tBool}
		case "-":
			return specVal{t: "(- " + e.eval(n.Args[0]).t + ")", typ: tInt}
		case "*":
			p := e.eval(n.Args[0])
			pt, ok := p.typ.Underlying().(*types.Pointer)
			if !ok {
				e.fail("deref of non-pointer %s", n.Args[0])
			}
			return specVal{t: v.loadPtr(e.st, Val{T: p.t}, pt.Elem()), typ: pt.Elem(), st: e.st}
		}
		e.fail("unary %s unsupported in specs", n.Op)
	case NBinary:
		return e.evalBinary(n)
	case NSelect:
		if p := isPkgIdent(e, n.Args[0]); p != nil {
			o := p.Scope().Lookup(n.Name)
			if o == nil {
				e.fail("%s.%s not found", p.Name(), n.Name)
			}
			if sv, ok := e.objVal(o); ok {
				return sv
			}
			e.fail("%s.%s is not a value", p.Name(), n.Name)
		}
		x := e.eval(n.Args[0])
		return e.selectField(x, n.Name, n)
	case NIndex:
		x := e.eval(n.Args[0])
		i := e.eval(n.Args[1])
		st := x.st
		if st == nil {
			st = e.st
		}
		switch u := x.typ.Underlying().(type) {
		case *types.Slice:
			k := v.elemKey(u.Elem())
			if e.pats != nil {
				if _, isQ := (*e.pats)[i.t]; isQ {
					(*e.pats)[i.t] = append((*e.pats)[i.t], "(ix (s.off "+x.t+") "+i.t+")")
				}
			}
			return specVal{t: sel(sel(v.heap(st, k), "(s.arr "+x.t+")"), "(ix (s.off "+x.t+") "+i.t+")"), typ: u.Elem(), st: st}
		case *types.Map:
			_, vk := v.mapKeys(u)
			return specVal{t: sel(sel(v.heap(st, vk), x.t), i.t), typ: u.Elem(), st: st}
		case *types.Array:
			return specVal{t: sel(x.t, i.t), typ: u.Elem(), st: st}
		}
		e.fail("cannot index %s (type %s)", n.Args[0], x.typ)
	case NSlice:
		x := e.eval(n.Args[0])
		if _, ok := x.typ.Underlying().(*types.Slice); !ok {
			e.fail("slice expression on non-slice %s", n.Args[0])
		}
		lo := "0"
		if n.Args[1] != nil {
			lo = e.eval(n.Args[1]).t
		}
		hi := "(s.len " + x.t + ")"
		if n.Args[2] != nil {
			hi = e.eval(n.Args[2]).t
		}
		return specVal{t: fmt.Sprintf("(mk-slice (s.arr %s) (+ (s.off %s) %s) (- %s %s) (- (s.cap %s) %s))", x.t, x.t, lo, hi, lo, x.t, lo), typ: x.typ, st: x.st}
	case NCall:
		return e.evalCall(n)
	}
	e.fail("cannot evaluate %s", n)
	return specVal{}
}

func (e *Env) selectField(x specVal, name string, n *Node) specVal {
	v := e.v
	t := x.typ
	isPtr := false
	if p, ok := t.Underlying().(*types.Pointer); ok {
		t = p.Elem()
		isPtr = true
	}
	_, st := namedStruct(t)
	if st == nil {
		e.fail("%s: selecting %s from non-struct type %s", n, name, x.typ)
	}
	if isOpaqueNamed(t) {
		e.fail("%s: type %s is opaque", n, t)
	}
	for i := 0; i < st.NumFields(); i++ {
		if st.Field(i).Name() == name {
			ft := st.Field(i).Type()
			if isPtr {
				return specVal{t: sel(v.heap(e.st, v.fieldKey(t, i)), x.t), typ: ft, st: e.st}
			}
			return specVal{t: fmt.Sprintf("(%s!%s %s)", v.smt.sortOf(t), name, x.t), typ: ft, st: x.st}
		}
		// embedded struct promotion (one level)
		if st.Field(i).Embedded() {
			et := st.Field(i).Type()
			if _, es := namedStruct(deref(et)); es != nil {
				for j := 0; j < es.NumFields(); j++ {
					if es.Field(j).Name() == name {
						var inner specVal
						if isPtr {
							inner = specVal{t: sel(v.heap(e.st, v.fieldKey(t, i)), x.t), typ: et, st: e.st}
						} else {
							inner = specVal{t: fmt.Sprintf("(%s!%s %s)", v.smt.sortOf(t), st.Field(i).Name(), x.t), typ: et, st: x.st}
						}
						return e.selectField(inner, name, n)
					}
				}
			}
		}
	}
	e.fail("%s: no field %s in %s", n, name, t)
	return specVal{}
}

func (e *Env) evalIdent(n *Node) specVal {
	v := e.v
	name := n.Name
	if sv, ok := e.bound[name]; ok {
		return sv
	}
	if body, ok := e.lets[name]; ok {
		return e.eval(body)
	}
	if e.li != nil && !e.inOld {
		if x, ok := e.li.names[name]; ok {
			return specVal{t: e.fr.pureTerm(e.st, x, e.li), typ: x.Type(), st: e.st}
		}
	}
	switch name {
	case "true", "false":
		return specVal{t: name, typ: tBool}
	case "nil":
		return specVal{t: "0", typ: types.Typ[types.UntypedNil], isNil: true}
	case "result":
		if len(e.results) != 1 {
			if e.fr != nil && fnHasLocal(e.fr.fn, "result") {
				// a local variable of the function is called result (return values are result0, result1, …)
				at := e.retBlock
				if e.li != nil {
					at = e.li.header
				}
				if at != nil && !e.inOld {
					if sv, ok := e.sourceVar(name, at); ok {
						return sv
					}
				}
			}
			e.fail("'result' used with %d results", len(e.results))
		}
		return specVal{t: e.results[0].T, typ: e.resT[0], st: e.st}
	}
	if strings.HasPrefix(name, "result") {
		if k, err := strconv.Atoi(name[6:]); err == nil && k < len(e.results) {
			return specVal{t: e.results[k].T, typ: e.resT[k], st: e.st}
		}
	}
	if strings.HasPrefix(name, "arg") {
		if k, err := strconv.Atoi(name[3:]); err == nil && k < len(e.args) {
			return e.args[k]
		}
	}
	for i, rn := range e.resName {
		if rn == name && i < len(e.results) {
			return specVal{t: e.results[i].T, typ: e.resT[i], st: e.st}
		}
	}
	if e.inOld && e.fr != nil {
		// old(x): parameters denote their entry values
		for _, p := range e.fr.fn.Params {
			if p.Name() == name {
				if val := e.fr.vals[p]; val.Loc == nil {
					return specVal{t: val.T, typ: p.Type(), st: e.st}
				}
			}
		}
	}
	if e.li != nil {
		if x, ok := e.li.names[name]; ok {
			return specVal{t: e.fr.pureTerm(e.st, x, e.li), typ: x.Type(), st: e.st}
		}
		// names of enclosing loops
		for _, outer := range e.fr.loops {
			if outer != e.li && outer.header.Dominates(e.li.header) {
				if x, ok := outer.names[name]; ok {
					return specVal{t: e.fr.pureTerm(e.st, x, e.li), typ: x.Type(), st: e.st}
				}
			}
		}
	}
	if e.atSite && e.li == nil && e.retBlock != nil && e.fr != nil {
		// at a site inside a loop body the latest definition (a merge phi or a reference after the
		// loop head) is more recent than the loop-head phi
		if sv, ok := e.sourceVarMode(name, e.retBlock, e.inOld); ok {
			return sv
		}
	}
	if e.li == nil && e.retBlock != nil && e.fr != nil {
		for _, outer := range e.fr.loops {
			if outer.header.Dominates(e.retBlock) || outer.header == e.retBlock {
				if x, ok := outer.names[name]; ok {
					if val, have := e.fr.vals[x]; have && val.Loc == nil {
						return specVal{t: val.T, typ: x.Type(), st: e.st}
					}
				}
			}
		}
	}
	if e.fr != nil {
		at := e.retBlock
		if e.li != nil {
			at = e.li.header
		}
		if at != nil {
			// inside old(): only immutable SSA values (a local that is never re-assigned denotes the
			// same value in every state); variables held in memory are read in the current state only
			if sv, ok := e.sourceVarMode(name, at, e.inOld); ok {
				return sv
			}
		}
	}
	if e.fr != nil {
		for _, p := range e.fr.fn.Params {
			if p.Name() == name {
				val := e.fr.vals[p]
				if val.Loc != nil {
					e.fail("parameter %s is a location", name)
				}
				return specVal{t: val.T, typ: p.Type(), st: e.st}
			}
		}
	}
	if e.pkg != nil {
		if sd, ok := v.eng.cs.Specs[fkey(e.pkg.Path(), name)]; ok && len(sd.Params) == 0 {
			return e.eval(sd.Body)
		}
		if o := e.pkg.Scope().Lookup(name); o != nil {
			if sv, ok := e.objVal(o); ok {
				return sv
			}
		}
	}
	if e.fr != nil && e.fr.owner != nil && e.fr.owner != e.fr && e.fr.parent != nil {
		// inside an extracted helper: the name may be a variable of the calling function (its value
		// at the call)
		pe := *e
		pe.fr = e.fr.parent
		pe.li = nil
		pe.retBlock = e.fr.parent.curBlock
		pe.atSite = true
		return pe.evalIdent(n)
	}
	if e.fr != nil && e.fr.fn != nil {
		if alt := v.eng.renamedTo(e.fr.fn, name); alt != "" {
			n2 := *n
			n2.Name = alt
			return e.evalIdent(&n2)
		}
	}
	e.fail("unknown identifier %q", name)
	return specVal{}
}

func (e *Env) coerceNil(a, b specVal) (specVal, specVal) {
	if a.isNil && !b.isNil {
		a = specVal{t: e.v.smt.zeroOf(b.typ), typ: b.typ}
	}
	if b.isNil && !a.isNil {
		b = specVal{t: e.v.smt.zeroOf(a.typ), typ: a.typ}
	}
	return a, b
}

func (e *Env) evalBinary(n *Node) specVal {
	op := n.Op
	switch op {
	case "&&":
		return specVal{t: and(e.eval(n.Args[0]).t, e.eval(n.Args[1]).t), typ: tBool}
	case "||":
		return specVal{t: or(e.eval(n.Args[0]).t, e.eval(n.Args[1]).t), typ: tBool}
	case "==>":
		return specVal{t: "(=> " + e.eval(n.Args[0]).t + " " + e.eval(n.Args[1]).t + ")", typ: tBool}
	case "<==>":
		return specVal{t: "(= " + e.eval(n.Args[0]).t + " " + e.eval(n.Args[1]).t + ")", typ: tBool}
	}
	a, b := e.eval(n.Args[0]), e.eval(n.Args[1])
	switch op {
	case "==", "!=":
		a, b = e.coerceNil(a, b)
		sa, sb := e.v.smt.sortOf(a.typ), e.v.smt.sortOf(b.typ)
		if sa != sb {
			e.fail("%s: comparing %s with %s", n, a.typ, b.typ)
		}
		t := eq(a.t, b.t)
		if op == "!=" {
			t = not(t)
		}
		return specVal{t: t, typ: tBool}
	case "<", "<=", ">", ">=":
		return specVal{t: "(" + op + " " + a.t + " " + b.t + ")", typ: tBool}
	case "+", "-", "*":
		typ := a.typ
		if bt, ok := typ.(*types.Basic); ok && bt.Info()&types.IsUntyped != 0 {
			typ = b.typ
		}
		return specVal{t: "(" + op + " " + a.t + " " + b.t + ")", typ: typ}
	case "/":
		return specVal{t: goDiv(a.t, b.t), typ: a.typ}
	case "%":
		return specVal{t: goRem(a.t, b.t), typ: a.typ}
	}
	e.fail("binary operator %s unsupported in specs", op)
	return specVal{}
}

func (e *Env) quant(n *Node, q string) specVal {
	v := e.v
	args := n.Args[1:]
	if len(args) == 4 {
		// forall(k, lo, hi, body)
		if args[0].Kind != NIdent {
			e.fail("quantifier binder must be an identifier in %s", n)
		}
		v.smt.n++
		kn := fmt.Sprintf("%s!q%d", args[0].Name, v.smt.n)
		lo, hi := e.eval(args[1]), e.eval(args[2])
		be := e.bind(args[0].Name, specVal{t: kn, typ: tInt})
		if e.pats == nil {
			m := map[string][]string{}
			be.pats = &m
		}
		(*be.pats)[kn] = []string{}
		body := be.eval(args[3])
		rng := and("(<= "+lo.t+" "+kn+")", "(< "+kn+" "+hi.t+")")
		pat := ""
		seen := map[string]bool{}
		for _, p := range (*be.pats)[kn] {
			if strings.Contains(p, "(ite ") {
				continue // z3 rejects conditionals inside patterns
			}
			// a pattern must not mention other bound variables of enclosing quantifiers that are not yet closed: fine in SMT-LIB (they are free here)
			if !seen[p] {
				seen[p] = true
				pat += " :pattern (" + p + ")"
			}
		}
		delete(*be.pats, kn)
		if q == "forall" {
			if pat != "" {
				return specVal{t: fmt.Sprintf("(forall ((%s Int)) (! (=> %s %s)%s))", kn, rng, body.t, pat), typ: tBool}
			}
			return specVal{t: fmt.Sprintf("(forall ((%s Int)) (=> %s %s))", kn, rng, body.t), typ: tBool}
		}
		if pat != "" {
			return specVal{t: fmt.Sprintf("(exists ((%s Int)) (! (and %s %s)%s))", kn, rng, body.t, pat), typ: tBool}
		}
		return specVal{t: fmt.Sprintf("(exists ((%s Int)) (and %s %s))", kn, rng, body.t), typ: tBool}
	}
	if len(args) == 2 && args[0].Kind == NTypeDecl {
		// forall(x T, body)
		t := e.resolveType(args[0].Args[0])
		v.smt.n++
		kn := fmt.Sprintf("%s!q%d", args[0].Name, v.smt.n)
		body := e.bind(args[0].Name, specVal{t: kn, typ: t}).eval(args[1])
		return specVal{t: fmt.Sprintf("(%s ((%s %s)) %s)", q, kn, v.smt.sortOf(t), body.t), typ: tBool}
	}
	e.fail("malformed quantifier %s", n)
	return specVal{}
}

func (e *Env) evalCall(n *Node) specVal {
	v := e.v
	fn := n.Args[0]
	args := n.Args[1:]
	if fn.Kind == NIdent {
		switch fn.Name {
		case "len", "cap":
			x := e.eval(args[0])
			if _, ok := x.typ.Underlying().(*types.Slice); ok {
				return specVal{t: "(s." + fn.Name + " " + x.t + ")", typ: tInt}
			}
			if b, ok := x.typ.Underlying().(*types.Basic); ok && b.Info()&types.IsString != 0 {
				return specVal{t: app(v.smt.declareFun("str.len", []string{"Str"}, "Int"), x.t), typ: tInt}
			}
			if a, ok := x.typ.Underlying().(*types.Array); ok {
				return specVal{t: fmt.Sprintf("%d", a.Len()), typ: tInt}
			}
			if mt, ok := x.typ.Underlying().(*types.Map); ok && fn.Name == "len" {
				st := x.st
				if st == nil {
					st = e.st
				}
				return specVal{t: v.mapLen(st, mt, x.t), typ: tInt}
			}
			e.fail("len of %s", x.typ)
		case "old":
			if e.old == nil {
				e.fail("old() not available here")
			}
			oe := e.with(e.old)
			oe.inOld = true
			sv := oe.eval(args[0])
			if sv.st == nil || sv.st == e.st {
				sv.st = e.old
			}
			return sv
		case "forall", "exists":
			return e.quant(n, fn.Name)
		case "ite":
			c, a, b := e.eval(args[0]), e.eval(args[1]), e.eval(args[2])
			a, b = e.coerceNil(a, b)
			return specVal{t: ite(c.t, a.t, b.t), typ: a.typ, st: a.st}
		case "has":
			m := e.eval(args[0])
			k := e.eval(args[1])
			mt, ok := m.typ.Underlying().(*types.Map)
			if !ok {
				e.fail("has() on non-map")
			}
			st := m.st
			if st == nil {
				st = e.st
			}
			dk, _ := v.mapKeys(mt)
			return specVal{t: and("(not (= "+m.t+" 0))", sel(sel(v.heap(st, dk), m.t), k.t)), typ: tBool}
		case "same":
			var cs []string
			for _, a := range args {
				x := e.eval(a)
				y := e.with(e.old).eval(a)
				cs = append(cs, eq(x.t, y.t))
			}
			return specVal{t: and(cs...), typ: tBool}
		case "untouched":
			// untouched(T, ...): every object of struct type T that existed in the reference state has
			// all its fields unchanged, including the rows of slices and maps held directly in fields
			var cs []string
			for _, a := range args {
				t := e.resolveType(a)
				_, stT := namedStruct(t)
				if stT == nil || !isRefStruct(t) {
					e.fail("untouched(): %s is not a struct type of the repository", a)
				}
				lim := v.alloc(e.old)
				for i := 0; i < stT.NumFields(); i++ {
					k := v.fieldKey(t, i)
					now, was := v.heap(e.st, k), v.heap(e.old, k)
					v.smt.n++
					r := fmt.Sprintf("r!u%d", v.smt.n)
					rng := and("(< 0 "+r+")", "(< "+r+" "+lim+")")
					if now != was {
						cs = append(cs, fmt.Sprintf("(forall ((%s Int)) (! (=> %s (= (select %s %s) (select %s %s))) :pattern ((select %s %s))))", r, rng, now, r, was, r, now, r))
					}
					switch ft := stT.Field(i).Type().Underlying().(type) {
					case *types.Slice:
						ek := v.elemKey(ft.Elem())
						en, eo := v.heap(e.st, ek), v.heap(e.old, ek)
						if en != eo {
							arr := "(s.arr (select " + was + " " + r + "))"
							cs = append(cs, fmt.Sprintf("(forall ((%s Int)) (! (=> %s (= (select %s %s) (select %s %s))) :pattern ((select %s %s))))", r, rng, en, arr, eo, arr, was, r))
						}
					case *types.Map:
						dk, vk := v.mapKeys(ft)
						for _, mk := range []string{dk, vk} {
							mn, mo := v.heap(e.st, mk), v.heap(e.old, mk)
							if mn != mo {
								ref := "(select " + was + " " + r + ")"
								cs = append(cs, fmt.Sprintf("(forall ((%s Int)) (! (=> %s (= (select %s %s) (select %s %s))) :pattern ((select %s %s))))", r, rng, mn, ref, mo, ref, was, r))
							}
						}
					}
				}
			}
			return specVal{t: and(cs...), typ: tBool}
		case "seqeq":
			a, b := e.eval(args[0]), e.eval(args[1])
			return specVal{t: e.seqEq(a, b), typ: tBool}
		case "sameseq":
			var cs []string
			for _, a := range args {
				x := e.eval(a)
				y := e.with(e.old).eval(a)
				y.st = e.old
				cs = append(cs, e.seqEq(x, y))
			}
			return specVal{t: and(cs...), typ: tBool}
		case "sum":
			// sum(k, lo, hi, term) with literal bounds
			lo, err1 := strconv.Atoi(args[1].String())
			hi, err2 := strconv.Atoi(args[2].String())
			if err1 != nil || err2 != nil || hi-lo > 64 {
				e.fail("sum needs literal bounds (<=64 terms): %s", n)
			}
			terms := []string{"0"}
			for k := lo; k < hi; k++ {
				terms = append(terms, e.bind(args[0].Name, specVal{t: fmt.Sprintf("%d", k), typ: tInt}).eval(args[3]).t)
			}
			return specVal{t: "(+ " + strings.Join(terms, " ") + ")", typ: tInt}
		case "first":
			// first(k, lo, hi, body): least k in [lo,hi) with body, else -1 (skolem constant + defining axiom)
			lo, hi := e.eval(args[1]), e.eval(args[2])
			f := v.smt.fresh("first", "Int")
			v.smt.n++
			kn := fmt.Sprintf("%s!q%d", args[0].Name, v.smt.n)
			bodyK := e.bind(args[0].Name, specVal{t: kn, typ: tInt}).eval(args[3]).t
			bodyF := e.bind(args[0].Name, specVal{t: f, typ: tInt}).eval(args[3]).t
			def := or(
				and(eq(f, "(- 1)"), fmt.Sprintf("(forall ((%s Int)) (=> (and (<= %s %s) (< %s %s)) (not %s)))", kn, lo.t, kn, kn, hi.t, bodyK)),
				and("(<= "+lo.t+" "+f+")", "(< "+f+" "+hi.t+")", bodyF,
					fmt.Sprintf("(forall ((%s Int)) (=> (and (<= %s %s) (< %s %s)) (not %s)))", kn, lo.t, kn, kn, f, bodyK)))
			*e.extra = append(*e.extra, def)
			return specVal{t: f, typ: tInt}
		case "held":
			// held(x.mu)
			if args[0].Kind != NSelect {
				e.fail("held() needs obj.mutexField")
			}
			obj := e.eval(args[0].Args[0])
			pt := deref(obj.typ)
			_, st := namedStruct(pt)
			for i := 0; st != nil && i < st.NumFields(); i++ {
				if st.Field(i).Name() == args[0].Name {
					hk := v.heldKey(fieldKeyName(pt, st, i))
					return specVal{t: sel(v.heap(e.st, hk), obj.t), typ: tBool}
				}
			}
			e.fail("held(): field not found")
		case "int", "int64", "int32", "uint64", "uint32", "uint8", "uint16", "uint", "int8", "int16", "byte":
			x := e.eval(args[0])
			to := types.Universe.Lookup(fn.Name).Type()
			return specVal{t: v.convert(e.st, x.t, x.typ, to), typ: to}
		case "min":
			a, b := e.eval(args[0]), e.eval(args[1])
			return specVal{t: ite("(<= "+a.t+" "+b.t+")", a.t, b.t), typ: a.typ}
		case "max":
			a, b := e.eval(args[0]), e.eval(args[1])
			return specVal{t: ite("(>= "+a.t+" "+b.t+")", a.t, b.t), typ: a.typ}
		case "arr":
			x := e.eval(args[0])
			return specVal{t: "(s.arr " + x.t + ")", typ: tInt}
		case "fresharr":
			x := e.eval(args[0])
			return specVal{t: "(>= (s.arr " + x.t + ") " + v.alloc(e.old) + ")", typ: tBool}
		case "oldrowsExcept":
			// oldrowsExcept(s, a1, a2...): element rows allocated before the call, other than the listed array ids, are unchanged
			x := e.eval(args[0])
			sl, ok := x.typ.Underlying().(*types.Slice)
			if !ok {
				e.fail("oldrowsExcept() needs a slice-typed expression")
			}
			k := v.elemKey(sl.Elem())
			v.smt.n++
			q := fmt.Sprintf("a!q%d", v.smt.n)
			conds := []string{"(< " + q + " " + v.alloc(e.old) + ")"}
			for _, a := range args[1:] {
				conds = append(conds, "(not (= "+q+" "+e.eval(a).t+"))")
			}
			return specVal{t: fmt.Sprintf("(forall ((%s Int)) (! (=> %s (= (select %s %s) (select %s %s))) :pattern ((select %s %s))))",
				q, and(conds...), v.heap(e.st, k), q, v.heap(e.old, k), q, v.heap(e.st, k), q), typ: tBool}
		case "oldrows":
			// oldrows(s): every element row (of s's element type) allocated before the call is unchanged
			x := e.eval(args[0])
			sl, ok := x.typ.Underlying().(*types.Slice)
			if !ok {
				e.fail("oldrows() needs a slice-typed expression")
			}
			k := v.elemKey(sl.Elem())
			v.smt.n++
			q := fmt.Sprintf("a!q%d", v.smt.n)
			return specVal{t: fmt.Sprintf("(forall ((%s Int)) (! (=> (< %s %s) (= (select %s %s) (select %s %s))) :pattern ((select %s %s))))",
				q, q, v.alloc(e.old), v.heap(e.st, k), q, v.heap(e.old, k), q, v.heap(e.st, k), q), typ: tBool}
		case "nvisited":
			// nvisited(): how many keys the map range of the enclosing loop has produced so far
			if e.li == nil {
				e.fail("nvisited() outside a loop invariant")
			}
			for _, in := range e.li.header.Instrs {
				if nx, ok := in.(*ssa.Next); ok {
					if rg, ok := nx.Iter.(*ssa.Range); ok {
						ck := visitCountKey(rg)
						v.ensureKey(ck)
						return specVal{t: v.heap(e.st, ck.Key), typ: tInt}
					}
				}
			}
			e.fail("nvisited(): the loop is not a map range")
		case "visited":
			// visited(k): key k has been produced by the map range of the enclosing loop
			if e.li == nil {
				e.fail("visited() outside a loop invariant")
			}
			for _, in := range e.li.header.Instrs {
				if nx, ok := in.(*ssa.Next); ok {
					if rg, ok := nx.Iter.(*ssa.Range); ok {
						mt := rg.X.Type().Underlying().(*types.Map)
						ki := visitedKey(rg, mt)
						v.ensureKey(ki)
						k := e.eval(args[0])
						return specVal{t: sel(v.heap(e.st, ki.Key), k.t), typ: tBool}
					}
				}
			}
			e.fail("visited(): the loop is not a map range")
		case "ntok", "rpos":
			x := e.eval(args[0])
			_, sn, sp := v.streamKeys()
			k := sn
			if fn.Name == "rpos" {
				k = sp
			}
			return specVal{t: sel(v.heap(e.st, k), e.streamIDOf(x)), typ: tInt}
		case "tokkind", "tokval":
			x := e.eval(args[0])
			i := e.eval(args[1])
			stk, _, _ := v.streamKeys()
			acc := "tk.kind"
			if fn.Name == "tokval" {
				acc = "tk.val"
			}
			tokT := sel(sel(v.heap(e.st, stk), e.streamIDOf(x)), i.t)
			if e.pats != nil {
				if _, isQ := (*e.pats)[i.t]; isQ {
					// quantified directly over token positions: trigger on any access to that position
					(*e.pats)[i.t] = append((*e.pats)[i.t], tokT)
				}
			}
			return specVal{t: "(" + acc + " " + tokT + ")", typ: tInt}
		case "toksame":
			// toksame(x): tokens written so far (positions below old ntok) are unchanged and ntok did not shrink
			x := e.eval(args[0])
			stk, sn, _ := v.streamKeys()
			id := e.streamIDOf(x)
			v.smt.n++
			q := fmt.Sprintf("p!q%d", v.smt.n)
			return specVal{t: and("(>= "+sel(v.heap(e.st, sn), id)+" "+sel(v.heap(e.old, sn), id)+")",
				fmt.Sprintf("(forall ((%s Int)) (! (=> (and (<= 0 %s) (< %s %s)) (= (select (select %s %s) %s) (select (select %s %s) %s))) :pattern ((select (select %s %s) %s))))",
					q, q, q, sel(v.heap(e.old, sn), id), v.heap(e.st, stk), id, q, v.heap(e.old, stk), id, q, v.heap(e.st, stk), id, q)), typ: tBool}
		case "abs":
			x := e.eval(args[0])
			pt, ok := x.typ.Underlying().(*types.Pointer)
			if !ok {
				e.fail("abs() needs a pointer to an object")
			}
			return specVal{t: sel(v.heap(e.st, v.absKey(pt.Elem())), x.t), typ: tInt}
		case "blob":
			x := e.eval(args[0])
			return specVal{t: sel(v.heap(e.st, v.blobKey()), "(s.arr "+x.t+")"), typ: tInt}
		case "enc":
			x := e.eval(args[0])
			return specVal{t: v.encVal(x.t, x.typ), typ: tInt}
		case "sprintf":
			// sprintf("<const format>", n): the key function shared with the fmt.Sprintf model
			if args[0].Kind != NStr {
				e.fail("sprintf() needs a literal format")
			}
			x := e.eval(args[1])
			name := "uf!sprintf!" + sanitize(args[0].Name)
			f := v.smt.declareFun(name, []string{"Int"}, "Str")
			v.smt.axiom(fmt.Sprintf("(forall ((a Int) (b Int)) (! (=> (= (%s a) (%s b)) (= a b)) :pattern ((%s a) (%s b))))", f, f, f, f))
			v.smt.note("sprintf_key_injective: storage keys built by Sprintf(const, n) are injective in n")
			return specVal{t: app(f, x.t), typ: types.Typ[types.String]}
		case "sthas", "stblob":
			k := e.eval(args[0])
			has, blob := v.storeKeys()
			if fn.Name == "sthas" {
				return specVal{t: sel(v.heap(e.st, has), k.t), typ: tBool}
			}
			return specVal{t: sel(v.heap(e.st, blob), k.t), typ: tInt}
		case "stsame":
			// stsame(): the abstract store is unchanged
			has, blob := v.storeKeys()
			return specVal{t: and(eq(v.heap(e.st, has), v.heap(e.old, has)), eq(v.heap(e.st, blob), v.heap(e.old, blob))), typ: tBool}
		case "stsameexcept":
			// stsameexcept(key): every other key of the abstract store is unchanged
			k := e.eval(args[0])
			has, blob := v.storeKeys()
			v.smt.n++
			q := fmt.Sprintf("s!q%d", v.smt.n)
			return specVal{t: fmt.Sprintf("(forall ((%s Str)) (! (=> (not (= %s %s)) (and (= (select %s %s) (select %s %s)) (= (select %s %s) (select %s %s)))) :pattern ((select %s %s)) :pattern ((select %s %s))))",
				q, q, k.t, v.heap(e.st, has), q, v.heap(e.old, has), q, v.heap(e.st, blob), q, v.heap(e.old, blob), q, v.heap(e.st, has), q, v.heap(e.st, blob), q), typ: tBool}
		case "hdrblob":
			b := e.eval(args[0])
			v.headerBlobAxioms(fmt.Sprint(tkObject + v.typeTag(v.eng.lookupType(pkgWire, "BlockHeader"))))
			return specVal{t: app("uf!hdrBlob", b.t), typ: tBool}
		case "blobntok":
			b := e.eval(args[0])
			ntok, _, _, _, _ := v.blobFuns()
			return specVal{t: app(ntok, b.t), typ: tInt}
		case "blobhdr":
			// blobhdr(b, i): the i-th block header of a header blob
			b := e.eval(args[0])
			i := e.eval(args[1])
			_, toks, _, _, _ := v.blobFuns()
			ht := v.eng.lookupType(pkgWire, "BlockHeader")
			tokT := sel(app(toks, b.t), i.t)
			if e.pats != nil {
				if _, isQ := (*e.pats)[i.t]; isQ {
					(*e.pats)[i.t] = append((*e.pats)[i.t], tokT)
				}
			}
			return specVal{t: v.decVal("(tk.val "+tokT+")", ht), typ: ht}
		case "tokkindb", "tokvalb":
			// tokkindb(b, i) / tokvalb(b, i): kind and payload of the i-th token of blob b
			b := e.eval(args[0])
			i := e.eval(args[1])
			_, toks, _, _, _ := v.blobFuns()
			tokT := sel(app(toks, b.t), i.t)
			if e.pats != nil {
				if _, isQ := (*e.pats)[i.t]; isQ {
					(*e.pats)[i.t] = append((*e.pats)[i.t], tokT)
				}
			}
			if fn.Name == "tokkindb" {
				return specVal{t: "(tk.kind " + tokT + ")", typ: tInt}
			}
			return specVal{t: "(tk.val " + tokT + ")", typ: tInt}
		case "blobtail":
			b := e.eval(args[0])
			_, _, _, _, tail := v.blobFuns()
			return specVal{t: app(tail, b.t), typ: tBool}
		case "sliceblob":
			x := e.eval(args[0])
			return specVal{t: v.sliceBlob(e.st, x.t), typ: tInt}
		case "aval":
			// aval(x.f): the value held by the atomic.Value field f of object x
			if args[0].Kind != NSelect {
				e.fail("aval() needs obj.field")
			}
			obj := e.eval(args[0].Args[0])
			pt := deref(obj.typ)
			_, st := namedStruct(pt)
			for i := 0; st != nil && i < st.NumFields(); i++ {
				if st.Field(i).Name() == args[0].Name {
					k := v.ghostKey("atomic!"+strings.TrimPrefix(fieldKeyName(pt, st, i), "F!"), "(Array Int Iface)")
					return specVal{t: sel(v.heap(e.st, k), obj.t), typ: types.NewInterfaceType(nil, nil)}
				}
			}
			e.fail("aval(): field not found")
		case "bval":
			// bval(x): boolean held by an interface value (boxed)
			x := e.eval(args[0])
			return specVal{t: v.loadPtr(e.st, Val{T: "(i.val " + x.t + ")"}, tBool), typ: tBool}
		case "ival":
			// ival(x): integer payload of an interface value holding an integer
			x := e.eval(args[0])
			return specVal{t: "(i.val " + x.t + ")", typ: tInt}
		case "bloblen":
			x := e.eval(args[0])
			return specVal{t: app(v.smt.declareFun("uf!blobLen", []string{"Int"}, "Int"), x.t), typ: tInt}
		case "oldblobs":
			// oldblobs(): byte arrays allocated before the reference state keep their blob identity
			bk := v.blobKey()
			v.smt.n++
			q := fmt.Sprintf("a!q%d", v.smt.n)
			return specVal{t: fmt.Sprintf("(forall ((%s Int)) (! (=> (< %s %s) (= (select %s %s) (select %s %s))) :pattern ((select %s %s))))",
				q, q, v.alloc(e.old), v.heap(e.st, bk), q, v.heap(e.old, bk), q, v.heap(e.st, bk), q), typ: tBool}
		case "objkind":
			// objkind(T): token kind of an object of dependency type T
			t := e.resolveType(args[0])
			return specVal{t: fmt.Sprintf("%d", tkObject+v.typeTag(t)), typ: tInt}
		case "fixedkind":
			t := e.resolveType(args[0])
			c, ok := fixedCode(t)
			if !ok {
				e.fail("fixedkind(): not a fixed-size type")
			}
			return specVal{t: fmt.Sprintf("%d", tkFixed+c), typ: tInt}
		case "decode":
			// decode(payload, T): the value of type T carried by a token payload
			x := e.eval(args[0])
			t := e.resolveType(args[1])
			return specVal{t: v.decVal(x.t, t), typ: t, st: e.st}
		case "deepeq":
			a, b := e.eval(args[0]), e.eval(args[1])
			return specVal{t: e.deepEq(a, b, 0), typ: tBool}
		case "sinceloop":
			// sinceloop(e): e with old() referring to the state on first arrival at the loop header
			if e.li == nil || e.li.pre == nil {
				e.fail("sinceloop() outside a loop invariant")
			}
			ne := *e
			ne.old = e.li.pre
			return ne.eval(args[0])
		case "nrecv":
			// nrecv(ch): how many values this execution has received from channel ch (ghost counter)
			x := e.eval(args[0])
			return specVal{t: sel(v.heap(e.st, v.ghostKey("nrecv", "(Array Int Int)")), x.t), typ: tInt}
		case "digest32":
			// digest32(k0, v0, k1, v1, …): the Hash32 made from sha256(Sum of a hash state into which
			// exactly the tokens (kind k_i, value v_i) were written, in this order)
			if len(args)%2 != 0 || len(args)/2 > maxDigestToks {
				e.fail("digest32 takes up to %d (kind, value) pairs", maxDigestToks)
			}
			sumBlob, sum256, hash32 := v.digestFuns()
			l := "tl.nil"
			for i := len(args)/2 - 1; i >= 0; i-- {
				k := e.eval(args[2*i])
				x := e.eval(args[2*i+1])
				l = fmt.Sprintf("(tl.cons (mk-tok %s %s) %s)", k.t, v.encVal(x.t, x.typ), l)
			}
			return specVal{t: app(hash32, app(sum256, app(sumBlob, l)), "0"), typ: v.eng.lookupType(pkgBitcoin, "Hash32")}
		case "ncalls":
			// ncalls(f): how many calls to f this function has made so far (f listed in `opt track`)
			if args[0].Kind != NIdent {
				e.fail("ncalls() takes a function name")
			}
			return specVal{t: v.heap(e.st, v.ghostKey("ncalls!"+args[0].Name, "Int")), typ: tInt}
		case "mtnreq", "mtnleaf":
			// mtnreq(t) / mtnleaf(t): proof requests / leaves of merkle tree t so far
			x := e.eval(args[0])
			nreq, _, _, nleaf, _ := v.mtKeys()
			k := nreq
			if fn.Name == "mtnleaf" {
				k = nleaf
			}
			return specVal{t: sel(v.heap(e.st, k), x.t), typ: tInt}
		case "mtreq", "mtleaf":
			// mtreq(t, k): txid of the k-th proof request; mtleaf(t, j): j-th leaf
			x := e.eval(args[0])
			i := e.eval(args[1])
			_, req, _, _, leaf := v.mtKeys()
			k := req
			if fn.Name == "mtleaf" {
				k = leaf
			}
			term := sel(sel(v.heap(e.st, k), x.t), i.t)
			if e.pats != nil {
				if _, isQ := (*e.pats)[i.t]; isQ {
					(*e.pats)[i.t] = append((*e.pats)[i.t], term)
				}
			}
			return specVal{t: term, typ: v.eng.lookupType(pkgBitcoin, "Hash32")}
		case "mtregleaf":
			// mtregleaf(t, k): leaf position recorded for the k-th proof request
			x := e.eval(args[0])
			i := e.eval(args[1])
			_, _, regLeaf, _, _ := v.mtKeys()
			term := sel(sel(v.heap(e.st, regLeaf), x.t), i.t)
			if e.pats != nil {
				if _, isQ := (*e.pats)[i.t]; isQ {
					(*e.pats)[i.t] = append((*e.pats)[i.t], term)
				}
			}
			return specVal{t: term, typ: tInt}
		case "blkpos":
			// blkpos(b): how many transactions GetNextTx has handed out from block b
			x := e.eval(args[0])
			return specVal{t: sel(v.heap(e.st, v.ghostKey("blk.pos", "(Array Int Int)")), "(i.val "+x.t+")"), typ: tInt}
		case "pushhash":
			// pushhash(b): the 20-byte value a data push with blob b is compared by — the bytes
			// themselves when there are 20 of them, RIPEMD160(SHA256(bytes)) otherwise
			b := e.eval(args[0])
			h20 := v.eng.lookupType(pkgBitcoin, "Hash20")
			_, fromBlob := v.opaqueBlobFuns(h20, 20)
			f := v.smt.declareFun("uf!hash160", []string{"Int"}, "Int")
			blen := v.smt.declareFun("uf!blobLen", []string{"Int"}, "Int")
			v.smt.axiom(fmt.Sprintf("(forall ((x Int)) (! (= (%s (%s x)) 20) :pattern ((%s x))))", blen, f, f))
			return specVal{t: app(fromBlob, ite(eq(app(blen, b.t), "20"), b.t, app(f, b.t))), typ: h20}
		case "lastarg":
			// lastarg(F, i): the i-th argument (a pointer) of this function's latest call to F (F in `opt track`)
			if args[0].Kind != NIdent {
				e.fail("lastarg() takes a function name")
			}
			i, err := strconv.Atoi(args[1].String())
			if err != nil {
				e.fail("lastarg(): literal argument index")
			}
			return specVal{t: v.heap(e.st, v.ghostKey(fmt.Sprintf("lastarg!%s!%d", args[0].Name, i), "Int")), typ: types.Typ[types.UnsafePointer]}
		case "lastres":
			// lastres(F, i): the i-th result (a pointer) of this function's latest call to F (F in `opt track`)
			if args[0].Kind != NIdent {
				e.fail("lastres() takes a function name")
			}
			i, err := strconv.Atoi(args[1].String())
			if err != nil {
				e.fail("lastres(): literal result index")
			}
			rt := types.Type(types.Typ[types.UnsafePointer])
			srt := "Int"
			if len(args) == 3 {
				// lastres(F, i, T): typed as T (a pointer type, or error)
				rt = e.resolveType(args[2])
				if v.smt.sortOf(rt) == "Iface" {
					srt = "Iface"
				}
			}
			return specVal{t: v.heap(e.st, v.ghostKey(fmt.Sprintf("lastres!%s!%d", args[0].Name, i), srt)), typ: rt, st: e.st}
		case "transmitted":
			// transmitted(m): message object m was handed to TransmitMessage during this call
			x := e.eval(args[0])
			return specVal{t: sel(v.heap(e.st, v.ghostKey("transmitted", "(Array Int Bool)")), x.t), typ: tBool}
		case "hitend":
			// hitend(r): some read on stream r was attempted at its end during this call (tracked only
			// in units with `opt trackend`; false elsewhere)
			x := e.eval(args[0])
			if !v.trackEnd() {
				return specVal{t: "false", typ: tBool}
			}
			return specVal{t: sel(v.heap(e.st, v.ghostKey("hitend", "(Array Int Bool)")), e.streamIDOf(x)), typ: tBool}
		case "handedover":
			// handedover(p): object p was sent on a channel earlier in this call (opt trackhandover)
			x := e.eval(args[0])
			return specVal{t: sel(v.heap(e.st, v.ghostKey("handed", "(Array Int Bool)")), x.t), typ: tBool}
		case "intact":
			// intact(r): the script reader r has not run into a malformed item yet
			x := e.eval(args[0])
			return specVal{t: not(sel(v.heap(e.st, v.ghostKey("sdirty", "(Array Int Bool)")), x.t)), typ: tBool}
		case "nseed":
			return specVal{t: v.heap(e.st, v.ghostKey("nseed", "Int")), typ: tInt}
		case "clock":
			return specVal{t: v.heap(e.st, v.ghostKey("clock", "Int")), typ: types.Typ[types.Int64]}
		case "fresh":
			// fresh(p): p was allocated during this call
			x := e.eval(args[0])
			return specVal{t: "(>= " + x.t + " " + v.alloc(e.old) + ")", typ: tBool}
		case "typeis":
			// typeis(x, T): dynamic type of interface x is T
			x := e.eval(args[0])
			t := e.resolveType(args[1])
			return specVal{t: fmt.Sprintf("(= (i.tag %s) %d)", x.t, v.typeTag(t)), typ: tBool}
		case "as":
			// as(x, *T): payload of interface x as pointer type
			x := e.eval(args[0])
			t := e.resolveType(args[1])
			if _, ok := sortIsInt(t); !ok {
				e.fail("as(): only pointer-like types")
			}
			return specVal{t: "(i.val " + x.t + ")", typ: t, st: e.st}
		}
		// spec macro
		if e.pkg != nil {
			if sd, ok := v.eng.cs.Specs[fkey(e.pkg.Path(), fn.Name)]; ok {
				if len(sd.Params) != len(args) {
					e.fail("spec %s expects %d arguments", fn.Name, len(sd.Params))
				}
				ne := *e
				ne.bound = map[string]specVal{}
				for k, val := range e.bound {
					ne.bound[k] = val
				}
				for i, p := range sd.Params {
					ne.bound[p] = e.eval(args[i])
				}
				ne.lets = map[string]*Node{}
				ne.depth++
				if ne.depth > 20 {
					e.fail("spec recursion too deep at %s", fn.Name)
				}
				return e.memoMacro(fn.Name, ne.eval(sd.Body))
			}
		}
		// uninterpreted spec function from the ext table
		if uf, ok := specUFs[fn.Name]; ok {
			var ts []string
			var sorts []string
			for _, a := range args {
				x := e.eval(a)
				ts = append(ts, x.t)
				sorts = append(sorts, v.smt.sortOf(x.typ))
			}
			rt := uf.result(v.eng)
			f := v.smt.declareFun(uf.smtName, sorts, v.smt.sortOf(rt))
			if uf.smtName == "uf!PayloadType" {
				v.payloadTypeAxioms()
			}
			if uf.smtName == "uf!errCause" {
				v.smt.axiom(eq(app(f, "(mk-iface 0 0)"), "(mk-iface 0 0)"))
			}
			return specVal{t: app(f, ts...), typ: rt, st: e.st}
		}
	}
	if fn.Kind == NSelect {
		if p := isPkgIdent(e, fn.Args[0]); p != nil {
			if sd, ok := v.eng.cs.Specs[fkey(p.Path(), fn.Name)]; ok {
				if len(sd.Params) != len(args) {
					e.fail("spec %s.%s expects %d arguments", p.Name(), fn.Name, len(sd.Params))
				}
				ne := *e
				ne.bound = map[string]specVal{}
				for i, prm := range sd.Params {
					ne.bound[prm] = e.eval(args[i])
				}
				ne.lets = map[string]*Node{}
				ne.pkg = p
				ne.fr = nil
				ne.li = nil
				ne.depth++
				return e.memoMacro(fn.Name, ne.eval(sd.Body))
			}
		}
	}
	e.fail("unknown spec function %s", fn)
	return specVal{}
}

func (e *Env) seqEq(a, b specVal) string {
	v := e.v
	as, ok1 := a.typ.Underlying().(*types.Slice)
	_, ok2 := b.typ.Underlying().(*types.Slice)
	if !ok1 || !ok2 {
		e.fail("seqeq on non-slices")
	}
	sa, sb := a.st, b.st
	if sa == nil {
		sa = e.st
	}
	if sb == nil {
		sb = e.st
	}
	k := v.elemKey(as.Elem())
	v.smt.n++
	q := fmt.Sprintf("j!q%d", v.smt.n)
	ea := sel(sel(v.heap(sa, k), "(s.arr "+a.t+")"), "(ix (s.off "+a.t+") "+q+")")
	eb := sel(sel(v.heap(sb, k), "(s.arr "+b.t+")"), "(ix (s.off "+b.t+") "+q+")")
	return and(eq("(s.len "+a.t+")", "(s.len "+b.t+")"),
		fmt.Sprintf("(forall ((%s Int)) (! (=> (and (<= 0 %s) (< %s (s.len %s))) (= %s %s)) :pattern ((ix (s.off %s) %s)) :pattern ((ix (s.off %s) %s))))", q, q, q, a.t, ea, eb, a.t, q, b.t, q))
}

// specUF: uninterpreted functions usable in specs and shared with the ext models.
type specUF struct {
	smtName string
	result  func(e *Engine) types.Type
}

func extType(pkg, name string) func(e *Engine) types.Type {
	return func(e *Engine) types.Type { return e.lookupType(pkg, name) }
}
func basicType(k types.BasicKind) func(e *Engine) types.Type {
	return func(e *Engine) types.Type { return types.Typ[k] }
}

const pkgBitcoin = "github.com/tokenized/pkg/bitcoin"
const pkgWire = "github.com/tokenized/pkg/wire"
const pkgClient = "github.com/tokenized/spynode/pkg/client"

var specUFs = map[string]specUF{
	"SerializeSize": {"uf!SerializeSize", basicType(types.Int)},
	"BlockHash":     {"uf!BlockHash", extType(pkgBitcoin, "Hash32")},
	"TxHash":        {"uf!TxHash", extType(pkgBitcoin, "Hash32")},
	"OutpointHash":  {"uf!OutpointHash", extType(pkgBitcoin, "Hash32")},
	"UnixNano":      {"uf!UnixNano", basicType(types.Int64)},
	"BlockHashOf":   {"uf!BlockHash", extType(pkgBitcoin, "Hash32")},
	"TxHashOf":      {"uf!TxHashOf", extType(pkgBitcoin, "Hash32")},
	"txinCount":     {"uf!txinCount", basicType(types.Int)},
	"PayloadType":   {"uf!PayloadType", basicType(types.Uint64)},
	"NextPublicKeyOf": {"uf!NextPublicKey", extType(pkgBitcoin, "PublicKey")},
	"NextKeyOf":     {"uf!NextKey", extType(pkgBitcoin, "Key")},
	"SignOf":        {"uf!SignOf", extType(pkgBitcoin, "Signature")},
	"PublicKeyOf":   {"uf!PublicKeyOf", extType(pkgBitcoin, "PublicKey")},
	"SeedAt":        {"uf!SeedAt", extType(pkgBitcoin, "Hash32")},
	"BlockValid":    {"uf!BlockMerkleValid", basicType(types.Bool)},
	"TxWithID":      {"uf!TxWithID", func(e *Engine) types.Type { return types.NewPointer(e.lookupType(pkgWire, "MsgTx")) }},
	"ProofTx":       {"uf!proofTx", extType(pkgBitcoin, "Hash32")},
	"ProofRoot":     {"uf!proofRoot", extType(pkgBitcoin, "Hash32")},
	"BlockHeaderOf": {"uf!blockHeader", extType(pkgWire, "BlockHeader")},
	"ContractAction": {"uf!ContractAction", basicType(types.Bool)},
	// TokenizedAction(blob, isTest): what the Tokenized protocol library decodes from a locking script
	// (the nil interface when the script is not a Tokenized action)
	"TokenizedAction": {"uf!TokenizedAction", func(e *Engine) types.Type { return types.NewInterfaceType(nil, nil) }},
	"Relevant":      {"uf!Relevant", basicType(types.Bool)},
	"KeyEq":         {"uf!PublicKeyEqual", basicType(types.Bool)},
	"SigVerify":     {"uf!SigVerify", basicType(types.Bool)},
	"AcceptSigHash": {"uf!AcceptSigHash", extType(pkgBitcoin, "Hash32")},
	"RegisterSigHash": {"uf!RegisterSigHash", extType(pkgBitcoin, "Hash32")},
	"Cause":         {"uf!errCause", func(e *Engine) types.Type { return types.Universe.Lookup("error").Type() }},
}

var _ = ssa.NaiveForm

// sourceVar: the value of source variable `name` at the entry of block `at`, taken from the
// latest DebugRef in a block that strictly dominates `at` (variables re-assigned inside a loop
// have a phi at the header and are resolved through loopInfo.names instead).
func (e *Env) sourceVar(name string, at *ssa.BasicBlock) (specVal, bool) {
	return e.sourceVarMode(name, at, false)
}

func (e *Env) sourceVarMode(name string, at *ssa.BasicBlock, valuesOnly bool) (specVal, bool) {
	var best *ssa.DebugRef
	var bestPhi *ssa.Phi
	bestDepth, bestIdx := -1, -1
	for _, b := range e.fr.fn.Blocks {
		if (b == at && !e.atSite) || !b.Dominates(at) {
			continue
		}
		depth := 0
		for d := b; d != nil; d = d.Idom() {
			depth++
		}
		for i, in := range b.Instrs {
			if phi, isPhi := in.(*ssa.Phi); isPhi && phi.Comment == name {
				if depth > bestDepth || depth == bestDepth && i > bestIdx {
					bestPhi, best, bestDepth, bestIdx = phi, nil, depth, i
				}
				continue
			}
			dr, ok := in.(*ssa.DebugRef)
			if !ok {
				continue
			}
			id, ok := dr.Expr.(*ast.Ident)
			if !ok || id.Name != name {
				continue
			}
			tv, isVar := dr.Object().(*types.Var)
			if !isVar || tv.IsField() {
				continue
			}
			if !dr.IsAddr && !types.Identical(dr.X.Type(), tv.Type()) {
				continue // the reference was implicitly converted (e.g. to an interface): not the variable's own value
			}
			if depth > bestDepth || depth == bestDepth && i > bestIdx {
				best, bestPhi, bestDepth, bestIdx = dr, nil, depth, i
			}
		}
	}
	if bestPhi != nil {
		if val, have := e.fr.vals[bestPhi]; have && val.Loc == nil && val.T != "" {
			return specVal{t: val.T, typ: bestPhi.Type(), st: e.st}, true
		}
		return specVal{}, false
	}
	if best == nil {
		return specVal{}, false
	}
	if !best.IsAddr && !valuesOnly {
		// a variable that lives in memory (its address is taken somewhere): a value reference at
		// its definition is stale once it is re-assigned — read the cell in the current state
		for _, b := range e.fr.fn.Blocks {
			for _, in := range b.Instrs {
				if dr, ok := in.(*ssa.DebugRef); ok && dr.IsAddr && dr.Object() == best.Object() {
					if directStores(e.fr.fn, dr.X) <= 1 {
						continue // assigned once: the value reference is exact (and simpler for the solver)
					}
					if av, have := e.fr.vals[dr.X]; have {
						t := deref(dr.X.Type())
						return specVal{t: e.v.loadPtr(e.st, av, t), typ: t, st: e.st}, true
					}
				}
			}
		}
	}
	val, have := e.fr.vals[best.X]
	if !have {
		if c, isConst := best.X.(*ssa.Const); isConst {
			return specVal{t: e.v.constTerm(c), typ: c.Type(), st: e.st}, true
		}
		return specVal{}, false
	}
	if best.IsAddr && valuesOnly {
		return specVal{}, false
	}
	if best.IsAddr {
		t := deref(best.X.Type())
		return specVal{t: e.v.loadPtr(e.st, val, t), typ: t, st: e.st}, true
	}
	if val.Loc != nil {
		return specVal{}, false
	}
	return specVal{t: val.T, typ: best.X.Type(), st: e.st}, true
}

func (e *Env) streamIDOf(x specVal) string {
	if _, ok := x.typ.Underlying().(*types.Interface); ok {
		return "(i.val " + x.t + ")"
	}
	return x.t
}

// deepEq: structural equality of two values of the same Go type, up to the abstractions of the
// stream model (objects of dependencies by abstract value, byte slices by blob, nil vs empty
// slices identified).
func (e *Env) deepEq(a, b specVal, depth int) string {
	v := e.v
	if depth > 6 {
		e.fail("deepeq: type too deep")
	}
	sa, sb := a.st, b.st
	if sa == nil {
		sa = e.st
	}
	if sb == nil {
		sb = e.st
	}
	t := types.Unalias(a.typ)
	switch u := t.Underlying().(type) {
	case *types.Basic:
		return eq(a.t, b.t)
	case *types.Pointer:
		el := u.Elem()
		nilEq := eq(eq(a.t, "0"), eq(b.t, "0"))
		if isRefStruct(el) && strings.HasPrefix(pkgPathOf(el), "github.com/tokenized/spynode") {
			_, st := namedStruct(el)
			var cs []string
			for i := 0; i < st.NumFields(); i++ {
				fa := specVal{t: sel(v.heap(sa, v.fieldKey(el, i)), a.t), typ: st.Field(i).Type(), st: sa}
				fb := specVal{t: sel(v.heap(sb, v.fieldKey(el, i)), b.t), typ: st.Field(i).Type(), st: sb}
				cs = append(cs, e.deepEq(fa, fb, depth+1))
			}
			return and(nilEq, implies(not(eq(a.t, "0")), and(cs...)))
		}
		if isRefStruct(el) && isFlatStruct(el) {
			return and(nilEq, implies(not(eq(a.t, "0")), eq(v.loadStruct(sa, a.t, el), v.loadStruct(sb, b.t, el))))
		}
		if isRefStruct(el) {
			ak := v.absKey(el)
			return and(nilEq, implies(not(eq(a.t, "0")), eq(sel(v.heap(sa, ak), a.t), sel(v.heap(sb, ak), b.t))))
		}
		return and(nilEq, implies(not(eq(a.t, "0")), eq(v.loadPtr(sa, Val{T: a.t}, el), v.loadPtr(sb, Val{T: b.t}, el))))
	case *types.Slice:
		lenEq := eq("(s.len "+a.t+")", "(s.len "+b.t+")")
		if bt, ok := u.Elem().Underlying().(*types.Basic); ok && bt.Kind() == types.Uint8 {
			bk := v.blobKey()
			return and(lenEq, implies("(> (s.len "+a.t+") 0)", eq(sel(v.heap(sa, bk), "(s.arr "+a.t+")"), sel(v.heap(sb, bk), "(s.arr "+b.t+")"))))
		}
		if n, ok := types.Unalias(t).(*types.Named); ok && n.Obj().Pkg() != nil && !strings.HasPrefix(n.Obj().Pkg().Path(), "github.com/tokenized/spynode") {
			if pe, ok := u.Elem().Underlying().(*types.Pointer); ok && isRefStruct(pe.Elem()) && !isFlatStruct(pe.Elem()) || ok && !isRefStruct(pe.Elem()) {
				// a collection type defined by a dependency, coded as one blob: compared by abstract value
				f := v.smt.declareFun("uf!absSlice", []string{"Slice"}, "Int")
				return eq(app(f, a.t), app(f, b.t))
			}
		}
		k := v.elemKey(u.Elem())
		v.smt.n++
		q := fmt.Sprintf("d!q%d", v.smt.n)
		ea := specVal{t: sel(sel(v.heap(sa, k), "(s.arr "+a.t+")"), "(ix (s.off "+a.t+") "+q+")"), typ: u.Elem(), st: sa}
		eb := specVal{t: sel(sel(v.heap(sb, k), "(s.arr "+b.t+")"), "(ix (s.off "+b.t+") "+q+")"), typ: u.Elem(), st: sb}
		return and(lenEq, fmt.Sprintf("(forall ((%s Int)) (! (=> (and (<= 0 %s) (< %s (s.len %s))) %s) :pattern ((ix (s.off %s) %s)) :pattern ((ix (s.off %s) %s))))",
			q, q, q, a.t, e.deepEq(ea, eb, depth+1), a.t, q, b.t, q))
	case *types.Struct:
		if isOpaqueNamed(t) {
			return eq(a.t, b.t)
		}
		dt := v.smt.sortOf(t)
		var cs []string
		for i := 0; i < u.NumFields(); i++ {
			fa := specVal{t: fmt.Sprintf("(%s!%s %s)", dt, u.Field(i).Name(), a.t), typ: u.Field(i).Type(), st: sa}
			fb := specVal{t: fmt.Sprintf("(%s!%s %s)", dt, u.Field(i).Name(), b.t), typ: u.Field(i).Type(), st: sb}
			cs = append(cs, e.deepEq(fa, fb, depth+1))
		}
		return and(cs...)
	}
	return eq(a.t, b.t)
}

func pkgPathOf(t types.Type) string {
	if n, ok := types.Unalias(t).(*types.Named); ok && n.Obj().Pkg() != nil {
		return n.Obj().Pkg().Path()
	}
	return ""
}

var localNames = map[*ssa.Function]map[string]bool{}

// fnHasLocal: does the function declare a local variable (or parameter) of this name?
func fnHasLocal(fn *ssa.Function, name string) bool {
	m, ok := localNames[fn]
	if !ok {
		m = map[string]bool{}
		for _, b := range fn.Blocks {
			for _, in := range b.Instrs {
				if dr, ok := in.(*ssa.DebugRef); ok {
					if id, ok := dr.Expr.(*ast.Ident); ok {
						if tv, isVar := dr.Object().(*types.Var); isVar && !tv.IsField() && tv.Pkg() != nil && tv.Parent() != tv.Pkg().Scope() {
							m[id.Name] = true
						}
					}
				}
			}
		}
		localNames[fn] = m
	}
	return m[name]
}

var qvarRe = regexp.MustCompile(`[A-Za-z_][A-Za-z0-9_.]*!(?:q|u)[0-9]+`)

// memoMacro: a large closed boolean instance of a spec macro is given a name (one Bool constant
// per distinct expanded text), so that the same invariant over the same heap versions is the same
// atom wherever it occurs — premises and goals that repeat it match without re-proving nested
// quantifiers.
func (e *Env) memoMacro(name string, r specVal) specVal {
	v := e.v
	if r.typ != tBool || len(r.t) < 300 || !strings.Contains(r.t, "forall") {
		return r
	}
	for _, tok := range qvarRe.FindAllString(r.t, -1) {
		if !strings.Contains(r.t, "("+tok+" ") {
			return r // a quantified variable of an enclosing binder occurs free
		}
	}
	if v.macCache == nil {
		v.macCache = map[string]string{}
	}
	if n, ok := v.macCache[r.t]; ok {
		r.t = n
		return r
	}
	n := v.smt.define("mac."+sanitize(name), "Bool", r.t)
	v.macCache[r.t] = n
	r.t = n
	return r
}

// directStores: how many store instructions write through addr itself.
func directStores(fn *ssa.Function, addr ssa.Value) int {
	n := 0
	for _, b := range fn.Blocks {
		for _, in := range b.Instrs {
			if st, ok := in.(*ssa.Store); ok && st.Addr == addr {
				n++
			}
		}
	}
	return n
}
