package main

import (
	"encoding/json"
	"flag"
	"fmt"
	"os"
	"path/filepath"
	"regexp"
	"sort"
	"strings"
	"time"
)

type KnownFinding struct {
	Property   string `json:"property"`
	Obligation string `json:"obligation"` // obligation name (site suffixes ~n, @retN are part of the name)
	What       string `json:"what"`
	Status     string `json:"status"` // "known" or "fixed"
	Commit     string `json:"commit,omitempty"`
}

type KnownFile struct {
	Findings []KnownFinding `json:"findings"`
	Lines    []string       `json:"lines"`
}

func main() {
	if len(os.Args) < 2 {
		fmt.Fprintln(os.Stderr, "usage: govc check|list|dump ...")
		os.Exit(2)
	}
	switch os.Args[1] {
	case "check":
		os.Exit(cmdCheck(os.Args[2:]))
	default:
		fmt.Fprintln(os.Stderr, "unknown command")
		os.Exit(2)
	}
}

func matchProp(props []string, p string) bool {
	if p == "" || p == "all" {
		return true
	}
	for _, x := range props {
		if x == p {
			return true
		}
	}
	return false
}

func cmdCheck(args []string) int {
	fs := flag.NewFlagSet("check", flag.ExitOnError)
	prop := fs.String("prop", "all", "property id")
	tier := fs.String("tier", "quick", "quick|thorough")
	repo := fs.String("repo", "/repo", "repository")
	verif := fs.String("verif", "/verif", "verif dir")
	seed := fs.Int("seed", 0, "seed")
	only := fs.String("fn", "", "only units whose name contains this")
	keep := fs.Bool("keep", false, "keep smt files")
	verbose := fs.Bool("v", false, "verbose")
	rebaseline := fs.Bool("rebaseline", false, "rewrite the ledger for this property")
	noEvidence := fs.Bool("no-evidence", false, "do not write evidence")
	replayDir := fs.String("replay-dir", "", "where replay files go (default <verif>/replay)")
	fs.Parse(args)
	t0 := time.Now()
	if *replayDir != "" {
		replayDirOverride = *replayDir
	}

	eng, err := LoadEngine(*repo)
	if err != nil {
		fmt.Printf("BROKEN: cannot load repository: %v\n", err)
		// a tree that does not load cannot be vouched for
		replay := writeReplay(*verif, *prop, "load", map[string]interface{}{"error": err.Error()})
		fmt.Printf("VIOLATION property=%s replay=%s no-failing-input-found\n", *prop, replay)
		return 1
	}
	if b, err := os.ReadFile(filepath.Join(*verif, "baseline", "locals.json")); err == nil {
		json.Unmarshal(b, &eng.baseLocals)
	}
	if b, err := os.ReadFile(filepath.Join(*verif, "baseline", "gostmts.json")); err == nil {
		json.Unmarshal(b, &eng.baseGo)
	}
	if b, err := os.ReadFile(filepath.Join(*verif, "baseline", "functions.json")); err == nil {
		var names []string
		if json.Unmarshal(b, &names) == nil {
			eng.baseFuncs = map[string]bool{}
			for _, n := range names {
				eng.baseFuncs[n] = true
			}
		}
	}
	timeout := 15
	if *tier == "thorough" {
		timeout = 60
	}
	// units
	var units []*FnVerifier
	var keys []string
	for k := range eng.cs.Funcs {
		keys = append(keys, k)
	}
	sort.Strings(keys)
	var missing []string
	for _, k := range keys {
		fc := eng.cs.Funcs[k]
		if !matchProp(fc.Serves, *prop) || fc.Inline && len(fc.Ensures) == 0 && len(fc.Safety) == 0 {
			continue
		}
		if *only != "" && !strings.Contains(fc.Name, *only) {
			continue
		}
		fn := eng.funcs[k]
		if fn == nil {
			missing = append(missing, k)
			continue
		}
		if fc.Trusted {
			continue
		}
		units = append(units, eng.VerifyFunc(fn, fc))
	}
	for _, ld := range eng.cs.Lemmas {
		if !matchProp(ld.Serves, *prop) {
			continue
		}
		if *only != "" && !strings.Contains(ld.Name, *only) {
			continue
		}
		units = append(units, eng.VerifyLemma(ld))
	}
	genS := time.Since(t0).Seconds() - eng.loadS

	var obls []*Obligation
	for _, u := range units {
		for _, o := range u.obls {
			if matchProp(o.Props, *prop) {
				obls = append(obls, o)
			}
		}
	}
	knownPre := loadKnown(filepath.Join(*verif, "known_findings.json"))
	knownNames := map[string]bool{}
	for _, k := range knownPre {
		if k.Status == "known" {
			knownNames[k.Obligation] = true
		}
	}
	for _, o := range obls {
		o.Known = knownNames[o.Name]
	}
	workDir, _ := os.MkdirTemp("", "govc-")
	if !*keep {
		defer os.RemoveAll(workDir)
	} else {
		fmt.Println("smt files in", workDir)
	}
	tS := time.Now()
	Discharge(obls, workDir, timeout, *seed, *tier == "thorough")
	solveS := time.Since(tS).Seconds()

	// ---- verdicts ----
	known := loadKnown(filepath.Join(*verif, "known_findings.json"))
	ledger := loadLedger(filepath.Join(*verif, "baseline", "ledger.json"))
	// dead covers recorded at rebaseline: site covers by name; return covers as a per-function
	// budget (return statements are renumbered by harmless edits)
	deadOK := map[string]bool{}
	deadRet := map[string]int{}
	for _, n := range ledger["dead:"+*prop] {
		if retCoverRe.MatchString(n) {
			deadRet[normName(n)]++
		} else {
			deadOK[n] = true
		}
	}
	var violations, knownHits, broken []string
	nDis, nFail, nUndec := 0, 0, 0
	seen := map[string]bool{}
	type oblRep struct {
		Name    string  `json:"name"`
		Kind    string  `json:"kind"`
		Verdict string  `json:"verdict"`
		Solver  string  `json:"solver,omitempty"`
		TimeS   float64 `json:"time_s"`
		Text    string  `json:"text,omitempty"`
		Pos     string  `json:"pos,omitempty"`
	}
	var reps []oblRep
	var solverTime float64
	byBackend := map[string]int{}
	nCover := 0
	// antecedent covers are judged per clause, not per site: a clause is vacuous only if its
	// antecedent can hold at none of the sites it is attached to
	anteGroup := func(n string) string {
		if i := strings.LastIndex(n, "#"); i >= 0 && strings.Contains(n, ".cover.ante") {
			return n[:i]
		}
		return ""
	}
	anteOK := map[string]bool{}
	for _, o := range obls {
		if g := anteGroup(o.Name); g != "" && o.Verdict == "cover-ok" {
			anteOK[g] = true
		}
	}
	for _, o := range obls {
		if g := anteGroup(o.Name); g != "" && o.Verdict == "cover-failed" && anteOK[g] {
			o.Verdict = "cover-ok"
			o.Output = "antecedent cannot hold at this site; it can at another site of the same clause"
		}
	}
	for _, o := range obls {
		seen[o.Name] = true
		solverTime += o.TimeS
		reps = append(reps, oblRep{o.Name, o.Kind, o.Verdict, o.Solver, round3(o.TimeS), o.Text, o.Pos})
		if *verbose || (o.Verdict != "discharged" && o.Verdict != "cover-ok") {
			fmt.Printf("  [%s] %s (%s, %.2fs) %s\n", o.Verdict, o.Name, o.Solver, o.TimeS, o.Pos)
		}
		switch o.Verdict {
		case "discharged":
			nDis++
			byBackend[o.Solver]++
		case "cover-ok":
			nCover++
		case "solver-disagreement":
			broken = append(broken, o.Name+": solvers disagree")
		case "cover-failed":
			if retCoverRe.MatchString(o.Name) && deadRet[normName(o.Name)] > 0 {
				deadRet[normName(o.Name)]--
				nCover++
				continue
			}
			if deadOK[o.Name] {
				// a return that is unreachable under the stated invariants on the pinned tree (recorded at rebaseline)
				nCover++
				continue
			}
			nFail++
			violations = append(violations, reportViolation(*verif, *prop, o, known, &knownHits, "contract became vacuous (unreachable) here"))
		case "failed":
			nFail++
			violations = append(violations, reportViolation(*verif, *prop, o, known, &knownHits, "solver found a counterexample to the obligation"))
		default:
			nUndec++
			violations = append(violations, reportViolation(*verif, *prop, o, known, &knownHits, "obligation could not be decided"))
		}
	}
	var unitErrs []string
	if *verbose {
		for _, u := range units {
			for _, h := range u.havocked {
				fmt.Printf("  havoc in %s: %s\n", u.unitName(), h)
			}
		}
	}
	for _, u := range units {
		for _, e := range u.errs {
			unitErrs = append(unitErrs, u.unitName()+": "+e)
			o := &Obligation{Name: u.unitName() + ".translate", Verdict: "undecided", Output: e, Unit: u}
			violations = append(violations, reportViolation(*verif, *prop, o, known, &knownHits, "function left the verifiable subset or its contract no longer applies: "+e))
		}
	}
	for _, m := range missing {
		o := &Obligation{Name: strings.ReplaceAll(m, " ", ":") + ".target", Verdict: "undecided", Output: "function under contract not found"}
		violations = append(violations, reportViolation(*verif, *prop, o, known, &knownHits, "function under contract not found in the tree"))
	}
	// ledger: obligations discharged on the pinned tree must still exist
	if *prop != "all" && *only == "" {
		normSeen := map[string]bool{}
		for n := range seen {
			normSeen[normName(n)] = true
		}
		for _, name := range ledger[*prop] {
			if !normSeen[name] {
				o := &Obligation{Name: name, Verdict: "undecided", Output: "obligation recorded in the ledger was not generated"}
				violations = append(violations, reportViolation(*verif, *prop, o, known, &knownHits, "ledger obligation no longer generated"))
			}
		}
	}
	var realViol []string
	for _, v := range violations {
		if v != "" {
			realViol = append(realViol, v)
		}
	}
	for _, k := range knownHits {
		fmt.Println(k)
	}
	for _, v := range realViol {
		fmt.Println(v)
	}
	for _, b := range broken {
		fmt.Println("BROKEN:", b)
	}
	if *rebaseline && *prop != "all" {
		var names []string
		dedup := map[string]bool{}
		for _, o := range obls {
			if (o.Verdict == "discharged" || o.Verdict == "cover-ok") && !dedup[normName(o.Name)] {
				dedup[normName(o.Name)] = true
				names = append(names, normName(o.Name))
			}
		}
		sort.Strings(names)
		var dead []string
		for _, o := range obls {
			if o.Verdict == "cover-failed" && (strings.Contains(o.Name, ".cover.ret") || strings.Contains(o.Name, ".cover.site.") || strings.Contains(o.Name, ".cover.ante")) {
				dead = append(dead, o.Name)
			}
		}
		sort.Strings(dead)
		ledger["dead:"+*prop] = dead
		ledger[*prop] = names
		saveLedger(filepath.Join(*verif, "baseline", "ledger.json"), ledger)
		// variable names of every function under contract, as of now
		locals := map[string]map[string]string{}
		for k := range eng.cs.Funcs {
			if fn := eng.funcs[k]; fn != nil {
				locals[fn.String()] = eng.localsOf(fn)
			}
		}
		if b, err := json.MarshalIndent(locals, "", " "); err == nil {
			os.WriteFile(filepath.Join(*verif, "baseline", "locals.json"), b, 0o644)
		}
		{
			// go statements per verified unit (merged into the file: other properties' units stay)
			gos := map[string]int{}
			if b, err := os.ReadFile(filepath.Join(*verif, "baseline", "gostmts.json")); err == nil {
				json.Unmarshal(b, &gos)
			}
			for _, u := range units {
				if u.fn != nil {
					gos[u.fn.String()] = u.goCount
				}
			}
			if b, err := json.MarshalIndent(gos, "", " "); err == nil {
				os.WriteFile(filepath.Join(*verif, "baseline", "gostmts.json"), b, 0o644)
			}
		}
		if b, err := json.MarshalIndent(eng.repoFuncs(), "", " "); err == nil {
			os.WriteFile(filepath.Join(*verif, "baseline", "functions.json"), b, 0o644)
		}
	}

	// ---- evidence ----
	wall := time.Since(t0).Seconds()
	if !*noEvidence && *prop != "all" && *only == "" {
		writeEvidence(*verif, *prop, *tier, *seed, eng, units, obls, reps, nDis, nCover, len(knownHits), len(realViol), byBackend, solverTime, wall, genS, solveS, unitErrs, timeout)
	}
	fmt.Printf("property=%s tier=%s units=%d obligations=%d discharged=%d cover=%d failed=%d undecided=%d known=%d load=%.1fs gen=%.1fs solve=%.1fs wall=%.1fs\n",
		*prop, *tier, len(units), len(obls), nDis, nCover, nFail, nUndec, len(knownHits), eng.loadS, genS, solveS, wall)
	if len(broken) > 0 {
		return 2
	}
	if len(realViol) > 0 {
		return 1
	}
	if len(obls) == 0 {
		fmt.Println("BROKEN: no obligations generated for", *prop)
		return 2
	}
	return 0
}

func round3(x float64) float64 { return float64(int(x*1000)) / 1000 }

func loadKnown(path string) []KnownFinding {
	b, err := os.ReadFile(path)
	if err != nil {
		return nil
	}
	var kf KnownFile
	if json.Unmarshal(b, &kf) != nil {
		return nil
	}
	return kf.Findings
}

func loadLedger(path string) map[string][]string {
	m := map[string][]string{}
	b, err := os.ReadFile(path)
	if err == nil {
		json.Unmarshal(b, &m)
	}
	return m
}

func saveLedger(path string, m map[string][]string) {
	os.MkdirAll(filepath.Dir(path), 0o755)
	b, _ := json.MarshalIndent(m, "", " ")
	os.WriteFile(path, b, 0o644)
}

var replayDirOverride string

func writeReplay(verif, prop, name string, content map[string]interface{}) string {
	dir := filepath.Join(verif, "replay")
	if replayDirOverride != "" {
		dir = replayDirOverride
	}
	os.MkdirAll(dir, 0o755)
	path := filepath.Join(dir, fmt.Sprintf("%s_%s.json", prop, sanitize(name)))
	content["property"] = prop
	b, _ := json.MarshalIndent(content, "", " ")
	os.WriteFile(path, b, 0o644)
	return path
}

// reportViolation returns the VIOLATION line, or "" if the obligation is a listed known finding.
func reportViolation(verif, prop string, o *Obligation, known []KnownFinding, knownHits *[]string, reason string) string {
	for _, k := range known {
		if k.Status == "known" && k.Obligation == o.Name && (k.Property == prop || prop == "all") {
			*knownHits = append(*knownHits, fmt.Sprintf("KNOWN-FINDING: property=%s %s [%s]", k.Property, k.What, o.Name))
			return ""
		}
	}
	out := o.Output
	if len(out) > 20000 {
		out = out[:20000] + "\n…(truncated)"
	}
	content := map[string]interface{}{
		"obligation": o.Name, "kind": o.Kind, "verdict": o.Verdict, "reason": reason, "goal_text": o.Text, "position": o.Pos,
		"solver": o.Solver, "solver_output": out, "replayed": false,
	}
	confirmed := false
	if o.Verdict == "failed" && o.Unit != nil {
		confirmed = tryReplay(verif, prop, o, content)
	}
	path := writeReplay(verif, prop, o.Name, content)
	if confirmed {
		return fmt.Sprintf("FAILED-OBLIGATION %s (%s)\nVIOLATION property=%s replay=%s", o.Name, reason, prop, path)
	}
	return fmt.Sprintf("FAILED-OBLIGATION %s (%s)\nVIOLATION property=%s replay=%s no-failing-input-found", o.Name, reason, prop, path)
}

var normRe = regexp.MustCompile(`(#\d+|@ret\d+|\.case\d+|\.rest|~\d+)`)

// normName strips site ordinals so that the ledger survives edits that add or remove sites.
// Return covers are numbered per return statement; merging or splitting returns is harmless as long
// as some return of the function stays reachable, so they are recorded as one entry per function.
func normName(n string) string {
	return retCoverRe.ReplaceAllString(normRe.ReplaceAllString(n, ""), "cover.ret")
}

var retCoverRe = regexp.MustCompile(`cover\.ret\d+`)
